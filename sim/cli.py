"""verif command line: setup / check / replay / selftest.

Exit codes: 0 property held on everything explored (known findings printed),
1 at least one VIOLATION line, 2 harness error.
"""

import argparse
import collections
import hashlib
import json
import os
import queue
import re
import subprocess
import sys
import threading
import time

ROOT = os.path.dirname(os.path.dirname(os.path.abspath(__file__)))
PYTHON = '/venv/bin/python'
HCLASSES = 4


def derive_seed(base, prop, batch, i):
    h = hashlib.sha256(f'{base}:{prop}:{batch}:{i}'.encode()).digest()
    return int.from_bytes(h[:7], 'big')


class Server:
    def __init__(self, hclass):
        env = dict(os.environ)
        env['PYTHONHASHSEED'] = str(hclass)
        env['PYTHONPATH'] = ROOT
        for k in ('OPENBLAS_NUM_THREADS', 'OMP_NUM_THREADS', 'MKL_NUM_THREADS', 'NUMEXPR_NUM_THREADS'):
            env[k] = '1'
        env.setdefault('VERIF_TREE', '/repo')
        self.hclass = hclass
        self.p = subprocess.Popen([PYTHON, '-X', 'faulthandler', '-m', 'sim.server'], cwd=ROOT, env=env,
                                  stdin=subprocess.PIPE, stdout=subprocess.PIPE, stderr=subprocess.DEVNULL,
                                  text=True, bufsize=1)
        self.lock = threading.Lock()

    def call(self, job):
        with self.lock:
            try:
                self.p.stdin.write(json.dumps(job) + '\n')
                self.p.stdin.flush()
                line = self.p.stdout.readline()
            except (BrokenPipeError, OSError):
                line = ''
        if not line:
            return {'harness_error': 'server died', 'id': job.get('id')}
        return json.loads(line)

    def close(self):
        try:
            self.p.stdin.write('{"quit":1}\n')
            self.p.stdin.flush()
            self.p.stdin.close()
        except Exception:  # noqa
            pass
        try:
            self.p.wait(timeout=5)
        except Exception:  # noqa
            self.p.kill()


def load_known():
    p = os.path.join(ROOT, 'known_findings.json')
    if not os.path.exists(p):
        return []
    with open(p) as f:
        return json.load(f)['findings']


def match_known(known, v):
    for k in known:
        if k.get('status') != 'known':
            continue
        if k['property'] == v['property'] and k['rule'] == v['rule'] and re.fullmatch(k['signature'], v['signature']):
            return k
    return None


CHUNK = int(os.environ.get('VERIF_CHUNK', '20'))
_KNOWN = load_known()


def run_jobs(jobs, njobs, progress=None, wall=None, stop_on_prop=None):
    """jobs: list of dicts with 'hclass'. Returns list of results (same order).
    Jobs of one (hclass, prop, batch) are sent CHUNK at a time: one fork per chunk."""
    nserv = max(njobs, HCLASSES)
    servers = [Server(i % HCLASSES) for i in range(nserv)]
    queues = {c: queue.Queue() for c in range(HCLASSES)}
    groups = collections.OrderedDict()
    for idx, j in enumerate(jobs):
        groups.setdefault((j['hclass'], j['prop'], j['batch']), []).append(idx)
    # chunks of the different batches are interleaved, so that a wall-clock cut-off samples every batch
    # in proportion instead of dropping the later ones
    lists = collections.defaultdict(list)
    for (hc, prop, batch), idxs in groups.items():
        size = jobs[idxs[0]].get('chunk') or CHUNK  # a batch of very cheap runs may ask for larger chunks (batch key 'chunk')
        lists[hc].append([(idxs[k:k + size], prop, batch) for k in range(0, len(idxs), size)])
    for hc, ls in lists.items():
        pos = [0] * len(ls)
        for _ in range(sum(len(l) for l in ls)):
            i = min((i for i in range(len(ls)) if pos[i] < len(ls[i])), key=lambda i: (pos[i] / len(ls[i]), i))
            queues[hc].put(ls[i][pos[i]])
            pos[i] += 1
    results = [None] * len(jobs)
    t0 = time.monotonic()
    stop = threading.Event()

    def worker(s):
        q = queues[s.hclass]
        while not stop.is_set():
            try:
                idxs, prop, batch = q.get_nowait()
            except queue.Empty:
                return
            if wall is not None and time.monotonic() - t0 > wall:
                for i in idxs:
                    results[i] = {'skipped': True}
                continue
            rr = s.call(dict(id=idxs[0], prop=prop, batch=batch, seeds=[jobs[i]['seed'] for i in idxs]))
            if all(r.get('harness_error') == 'harness_timeout' for r in rr.get('results') or [{}]):
                # the watchdog of the run server fired (a machine-wide stall is indistinguishable from a hang at this
                # point): once more, alone and with three times the time; a second timeout is reported as a harness error
                rr = s.call(dict(id=idxs[0], prop=prop, batch=batch, seeds=[jobs[i]['seed'] for i in idxs], timeout_scale=3))
            if rr.get('harness_error') == 'server died':
                for i in idxs:
                    results[i] = dict(rr)
                stop.set()
                continue
            again = [i for i, r in zip(idxs, rr['results']) if r.get('retry')]
            if again:
                q.put((again, prop, batch))  # the child was poisoned by a run that hung: these seeds were not run
            for i, r in zip(idxs, rr['results']):
                if r.get('retry'):
                    continue
                results[i] = r
                if stop_on_prop and any(v['property'] == stop_on_prop and not match_known(_KNOWN, v) for v in r.get('violations') or []):
                    stop.set()  # sensitivity self-test: the first violation is all that is asked for

    threads = [threading.Thread(target=worker, args=(s,), daemon=True) for s in servers]
    for t in threads:
        t.start()
    for t in threads:
        t.join()
    return results, servers


def write_json(path, obj):
    os.makedirs(os.path.dirname(path), exist_ok=True)
    tmp = path + '.tmp'
    with open(tmp, 'w') as f:
        json.dump(obj, f, indent=1, default=str)
    os.replace(tmp, path)


def check(prop, tier, seed, njobs):
    sys.path.insert(0, ROOT)
    from checks import registry

    P = registry.PROPS[prop]
    t0 = time.monotonic()
    jobs = []
    for b, batch in enumerate(P['batches']):
        n = batch['runs'][tier]
        for i in range(n):
            jobs.append(dict(id=len(jobs), prop=prop, batch=b, seed=derive_seed(seed, prop, b, i), hclass=i % HCLASSES,
                             chunk=batch.get('chunk')))
    wall = P.get('wall', {}).get(tier, 120 if tier == 'quick' else 1500) * float(os.environ.get('VERIF_WALL_SCALE', '1'))
    results, servers = run_jobs(jobs, njobs, wall=wall, stop_on_prop=prop if os.environ.get('VERIF_STOP_FIRST') else None)
    try:
        return finish(prop, tier, seed, P, jobs, results, servers, t0)
    finally:
        for s in servers:
            s.close()


VITAL = {
    'worlds.pipe': ['handed', 'reply_judged'],
    'worlds.fsm': ['handed', 'reply_judged'],
    'worlds.disk': ['handed', 'reply_judged'],
    'worlds.timer': ['handed', 'reply_judged'],
    'worlds.realw': ['handed', 'end_state_checked'],
}


def finish(prop, tier, seed, P, jobs, results, servers, t0):
    known = load_known()
    agg = collections.Counter()
    probes = collections.Counter()
    faults = collections.Counter()
    kinds = collections.Counter()
    digests, nontrivial = set(), set()
    harness_errors = []
    groups = {}
    others = collections.Counter()
    samples = []
    per_batch = collections.Counter()
    probes_b = collections.defaultdict(collections.Counter)
    for j, r in zip(jobs, results):
        if r is None or r.get('skipped'):
            agg['skipped'] += 1
            continue
        if 'harness_error' in r:
            harness_errors.append((j['seed'], j['batch'], r['harness_error']))
            continue
        agg['runs'] += 1
        per_batch[j['batch']] += 1
        agg['steps'] += r.get('steps', 0)
        agg['vtime'] += r.get('vtime', 0)
        probes.update(r.get('probes') or {})
        probes_b[j['batch']].update(r.get('probes') or {})
        probes_b[j['batch']]['_nontrivial'] += bool(r.get('nontrivial'))
        faults.update(r.get('faults') or {})
        kinds.update(r.get('kinds') or {})
        digests.add(r.get('digest'))
        if r.get('nontrivial'):
            nontrivial.add(r.get('digest'))
        if len(samples) < 3 and r.get('nontrivial') and r.get('sample'):
            samples.append({'run_seed': j['seed'], 'batch': j['batch'], 'ops': r['sample'][:40]})
        for v in r.get('violations') or []:
            if v['property'] != prop:
                others[f"{v['property']}/{v['rule']}"] += 1
                continue
            key = (v['rule'], v['signature'])
            g = groups.setdefault(key, dict(count=0, first=None))
            g['count'] += 1
            if g['first'] is None or len(r.get('choices') or []) < len(g['first'][1].get('choices') or [1] * 10 ** 6):
                g['first'] = (j, r, v)
    out_lines = []
    nviol = 0
    rc = 0
    rdir = os.environ.get('VERIF_REPLAY_DIR') or os.path.join(ROOT, 'replays')
    tree = None
    # minimise every group (in parallel, one server each), then confirm each in a fresh child
    shr = {}

    def do_shrink(key, serv):
        j, r, v = groups[key]['first']
        if key[0] == 'code_hangs' or os.environ.get('VERIF_NO_SHRINK') or (match_known(known, dict(property=prop, rule=key[0], signature=key[1])) and not os.environ.get('VERIF_SHRINK_KNOWN')):
            shr[key] = {}  # a known finding is re-confirmed, not re-minimised, on every run (VERIF_SHRINK_KNOWN=1 to minimise)
            return
        shr[key] = serv.call(dict(id='shrink', shrink=dict(prop=prop, batch=j['batch'], choices=r['choices'],
                                                           property=prop, rule=key[0], signature=key[1])))

    byclass = collections.defaultdict(list)
    for s_ in servers:
        byclass[s_.hclass].append(s_)
    used = collections.Counter()
    ths = []
    for key in sorted(groups):
        j = groups[key]['first'][0]
        pool = byclass[j['hclass']]
        serv = pool[used[j['hclass']] % len(pool)]
        used[j['hclass']] += 1
        t = threading.Thread(target=do_shrink, args=(key, serv), daemon=True)
        t.start()
        ths.append(t)
    for t in ths:
        t.join()
    for (rule, sig), g in sorted(groups.items()):
        j, r, v = g['first']
        sh = shr.get((rule, sig)) or {}
        fin = sh.get('result') or r
        vv = next((x for x in fin.get('violations') or [] if x['property'] == prop and x['rule'] == rule and x['signature'] == sig), None)
        if vv is None:
            harness_errors.append((j['seed'], j['batch'], f'violation {rule}/{sig} found in a chunked run did not reproduce in a fresh child: '
                                   f'isolation failure of the harness ({sh.get("harness_error", "")})'))
            continue
        replay = dict(property=prop, batch=j['batch'], hashseed=j['hclass'], run_seed=j['seed'], verif_seed=seed,
                      choices=sh.get('choices', r['choices']), unminimised_choices_len=len(r['choices']),
                      violation=dict(rule=rule, signature=vv['signature'], message=vv['message']),
                      event_log_digest=fin.get('digest'), ops=fin.get('ops') or fin.get('sample'),
                      shrink_runs=sh.get('shrink_runs'), tree_hash=tree_hash())
        name = f"{prop}-{rule}-{re.sub(r'[^A-Za-z0-9_]+', '_', vv['signature'])[:40]}.json"
        path = os.path.join(rdir, name)
        write_json(path, replay)
        k = match_known(known, dict(property=prop, rule=rule, signature=vv['signature']))
        if k:
            out_lines.append(f"KNOWN-FINDING: property={prop} {rule} {vv['signature']} ({g['count']} runs) {k.get('description', '')[:160]} replay={path}")
        else:
            out_lines.append(f"VIOLATION property={prop} replay={path}")
            out_lines.append(f"  rule={rule} signature={vv['signature']} runs={g['count']} :: {vv['message'][:300]}")
            nviol += 1
            rc = 1
    wall = time.monotonic() - t0
    if harness_errors:
        rc = 2 if rc == 0 else rc
        for s_, b_, e in harness_errors[:5]:
            out_lines.append(f'HARNESS-ERROR run_seed={s_} batch={b_}: {str(e)[-400:]}')
    if agg['runs'] == 0:
        rc = 2
    warn = [p for p in P.get('probes', []) if probes.get(p, 0) == 0]
    # vitality: a batch whose runs never reached the behaviour it exists for proves nothing - that is a harness
    # error (exit 2), never a silent pass
    vital = {}
    for b, n in per_batch.items():
        spec = P['batches'][b]
        need = spec.get('require')
        if need is None:
            need = VITAL.get(spec['world'], [])
        need = ['_nontrivial'] + list(need)
        dead = [q for q in need if probes_b[b].get(q, 0) == 0]
        vital[spec.get('name', str(b))] = dict(required=need, at_zero=dead, runs=n)
        if dead and n >= 40:
            rc = 2 if rc == 0 else rc
            out_lines.append(f'HARNESS-ERROR batch={spec.get("name", b)}: {n} runs never reached {dead} - the batch is vacuous')
    ev = dict(
        property_id=prop, tier=tier, seed=seed, level=P['level'], wall_s=round(wall, 2), violations=nviol,
        coverage=dict(
            evaluations=agg['runs'], distinct_nontrivial=len(nontrivial), rule=P['rule'], samples=samples or [{'note': 'no nontrivial run'}],
            distinct_event_logs=len(digests), runs_per_hour=int(agg['runs'] / max(wall, 1e-6) * 3600),
            simulated_seconds=round(agg['vtime'], 1), steps=agg['steps'], step_kinds=dict(kinds),
            faults_fired=dict(faults), probes=dict(probes), probes_at_zero=warn, vitality=vital,
            runs_per_batch={P['batches'][b].get('name', str(b)): n for b, n in per_batch.items()},
            skipped_for_wall_budget=agg['skipped'], harness_errors=len(harness_errors),
            other_property_violations_seen=dict(others), components=P.get('components', {}),
            known_findings_reported=[l for l in out_lines if l.startswith('KNOWN-FINDING')],
            seeds=dict(first=jobs[0]['seed'] if jobs else None, last=jobs[-1]['seed'] if jobs else None),
            exhaustive=False),
        assumptions=P.get('assumptions', []) + [f'tree={os.environ.get("VERIF_TREE", "/repo")}'],
    )
    ev['coverage']['tree_hash'] = tree_hash()
    write_json(os.path.join(os.environ.get('VERIF_EVIDENCE_DIR') or os.path.join(ROOT, 'evidence'), f'{prop}.json'), ev)
    for l in out_lines:
        print(l)
    print(f'{prop} {tier}: runs={agg["runs"]} distinct_nontrivial={len(nontrivial)} wall={wall:.1f}s '
          f'violations={nviol} known={sum(1 for l in out_lines if l.startswith("KNOWN"))} harness_errors={len(harness_errors)} '
          f'probes_at_zero={warn}')
    return rc


def tree_hash():
    h = hashlib.sha256()
    root = os.path.join(os.environ.get('VERIF_TREE', '/repo'), 'Python', 'dawgie')
    for dp, dn, fn in sorted(os.walk(root)):
        dn.sort()
        if '__pycache__' in dp:
            continue
        for f in sorted(fn):
            if f.endswith(('.py', '.dot')):
                p = os.path.join(dp, f)
                h.update(os.path.relpath(p, root).encode())
                with open(p, 'rb') as fh:
                    h.update(fh.read())
    return h.hexdigest()[:16]


def replay(path):
    with open(path) as f:
        rp = json.load(f)
    s = Server(int(rp.get('hashseed', 0)))
    try:
        r = s.call(dict(id='replay', prop=rp['property'], batch=rp['batch'], choices=rp['choices'], keep=True))
    finally:
        s.close()
    if 'harness_error' in r:
        print('HARNESS-ERROR', r['harness_error'])
        return 2
    for l in (r.get('ops') or [])[-60:]:
        print('  ', l)
    want = rp['violation']
    got = [v for v in r.get('violations') or [] if v['property'] == rp['property'] and v['rule'] == want['rule']]
    same_digest = r.get('digest') == rp.get('event_log_digest')
    if got:
        print(f"VIOLATION property={rp['property']} replay={path}")
        print(f"  reproduced rule={want['rule']} signature={got[0]['signature']} digest_match={same_digest}")
        return 1 if same_digest else 2
    print(f"replay did NOT reproduce {want['rule']}; violations now: {r.get('violations')}")
    return 0


def setup():
    env = dict(os.environ, PYTHONPATH=ROOT)
    code = ("from sim import boot; s=boot.setup(); import dawgie,hypothesis; "
            "print('ok', dawgie.__file__, boot.tree_hash())")
    p = subprocess.run([PYTHON, '-c', code], cwd=ROOT, env=env, capture_output=True, text=True)
    print(p.stdout.strip(), p.stderr.strip()[-500:])
    if p.returncode != 0:
        p2 = subprocess.run([PYTHON, '-m', 'pip', 'install', '--no-index', '--find-links', '/opt/veriftools/wheels', 'hypothesis'],
                            capture_output=True, text=True)
        print(p2.stdout[-300:], p2.stderr[-300:])
        p = subprocess.run([PYTHON, '-c', code], cwd=ROOT, env=env, capture_output=True, text=True)
        print(p.stdout.strip(), p.stderr.strip()[-500:])
    os.makedirs(os.path.join(ROOT, 'evidence'), exist_ok=True)
    os.makedirs(os.path.join(ROOT, 'replays'), exist_ok=True)
    return p.returncode


def main(argv=None):
    ap = argparse.ArgumentParser(prog='verif')
    sub = ap.add_subparsers(dest='cmd', required=True)
    sub.add_parser('setup')
    c = sub.add_parser('check')
    c.add_argument('prop')
    c.add_argument('--tier', default=os.environ.get('VERIF_TIER', 'quick'), choices=['quick', 'thorough'])
    r = sub.add_parser('replay')
    r.add_argument('path')
    rn = sub.add_parser('run', help='one run, printed (debugging)')
    rn.add_argument('prop')
    rn.add_argument('batch', type=int)
    rn.add_argument('index', type=int)
    rn.add_argument('--run-seed', type=int, default=None)
    st = sub.add_parser('selftest')
    st.add_argument('what', choices=['determinism', 'mutants'])
    st.add_argument('props', nargs='*')
    st.add_argument('--n', type=int, default=40)
    a = ap.parse_args(argv)
    seed = int(os.environ.get('VERIF_SEED', '0') or 0)
    njobs = int(os.environ.get('VERIF_JOBS', '16') or 16)
    if a.cmd == 'setup':
        return setup()
    if a.cmd == 'check':
        return check(a.prop, a.tier, seed, njobs)
    if a.cmd == 'replay':
        return replay(a.path)
    if a.cmd == 'run':
        rs = a.run_seed if a.run_seed is not None else derive_seed(seed, a.prop, a.batch, a.index)
        s = Server(a.index % HCLASSES)
        try:
            r = s.call(dict(id='run', prop=a.prop, batch=a.batch, seed=rs, keep=True))
        finally:
            s.close()
        for l in r.get('ops') or []:
            print('  ', l)
        print({k: v for k, v in r.items() if k not in ('ops', 'sample', 'choices')})
        return 0
    if a.cmd == 'selftest':
        sys.path.insert(0, ROOT)
        from sim import selftest

        if a.what == 'determinism':
            return selftest.determinism(a.props, a.n, seed)
        return selftest.mutants(a.props)
    return 2


if __name__ == '__main__':
    sys.exit(main())
