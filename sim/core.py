"""Simulator kernel: chooser, discrete-event scheduler, controlled threads,
simulated network and the simulated Twisted reactor.

One `Chooser` decides everything (DESIGN.md 2.1).  Nothing in this file reads
a real clock or an unseeded PRNG.
"""

import collections
import hashlib
import random
import sys
import threading

# --------------------------------------------------------------------------
# chooser
# --------------------------------------------------------------------------


class Chooser:
    """choose(kind, n) -> 0..n-1 ; value 0 is always the boring choice."""

    def __init__(self, seed=None, replay=None):
        self.replay = list(replay) if replay is not None else None
        self.rng = random.Random(seed) if self.replay is None else None
        self.pos = 0
        self.rec = []  # (kind, n, v)
        self.counts = collections.Counter()

    def choose(self, kind, n):
        if n <= 1:
            return 0
        if self.replay is not None:
            if self.pos < len(self.replay):
                v = int(self.replay[self.pos]) % n
                self.pos += 1
            else:
                v = 0
        else:
            v = self.rng.randrange(n)
        self.rec.append((kind, n, v))
        return v

    def flip(self, kind, num, den):
        """True with probability num/den; recorded value 0 means False."""
        if num <= 0:
            return False
        if num >= den:
            return True
        return self.choose(kind, den) >= den - num

    def pick(self, kind, seq):
        return seq[self.choose(kind, len(seq))]

    def values(self):
        return [v for _k, _n, v in self.rec]


class Budget(Exception):
    pass


class CodeHang(BaseException):
    """raised by the step alarm inside whatever the main thread is doing"""


class Hung(Exception):
    """one step of the code under test did not end within STEP_HANG real seconds (an endless loop): the run is over and
    this process is poisoned (a controlled thread may still be spinning)"""

    def __init__(self, kind, label, where):
        super().__init__(f'{kind}:{label} hangs in {where}')
        self.kind, self.label, self.where = kind, label, where


STEP_HANG = float(__import__('os').environ.get('VERIF_STEP_HANG', '25'))


def _alarm(_signum, _frame):
    raise CodeHang()


def _tree_frame(frames):
    """innermost frame of the code under test in a list of (filename, function, lineno), innermost last"""
    import os

    tree = os.path.abspath(os.environ.get('VERIF_TREE', '/repo'))
    here = os.path.dirname(os.path.dirname(os.path.abspath(__file__)))
    for fn, func, line in reversed(frames):
        if fn.startswith(here):
            continue
        if fn.startswith(tree) or 'site-packages' in fn:
            return f'{os.path.relpath(fn, tree) if fn.startswith(tree) else fn.split("site-packages/")[-1]}:{func}:{line}'
    return None


class HarnessError(Exception):
    pass


# --------------------------------------------------------------------------
# controlled threads
# --------------------------------------------------------------------------

_tls = threading.local()


def current_thread():
    return getattr(_tls, 'simthread', None)


class ThreadKilled(BaseException):
    pass


class SimThread:
    def __init__(self, sim, name, fn):
        self.sim = sim
        self.name = name
        self.fn = fn
        self.sem = threading.Semaphore(0)
        self.done = False
        self.dead = False  # crashed: never released again
        self.exc = None
        self.result = None
        self.pred = None
        self.until = None
        self.label = 'start'
        self.steps = 0
        self.thread = threading.Thread(target=self._main, daemon=True)
        self.thread.start()

    def _main(self):
        self.sem.acquire()
        _tls.simthread = self
        try:
            if not self.dead:
                if self.sim.preempt:
                    sys.settrace(self._trace_calls)
                self.result = self.fn()
        except ThreadKilled:
            pass
        except BaseException as e:  # recorded, reported by the world
            self.exc = e
        finally:
            self.done = True
            self.sim._main_sem.release()

    # -- line-level pre-emption (sim.preempt): a controlled thread may lose the processor between two lines of the
    #    files named there; which lines is a chooser decision, so a run replays exactly
    def _trace_calls(self, frame, event, _arg):
        cfg = self.sim.preempt
        if cfg and event == 'call' and frame.f_code.co_filename.endswith(cfg['files']) and frame.f_code.co_name not in cfg.get('skip', ('_import',)):
            # not inside the callbacks of a life-cycle trigger: the state has flipped by then and what is left (redrawing
            # the state picture ...) belongs to no step the properties speak of
            f = frame.f_back
            while f is not None:
                if '/transitions/' in f.f_code.co_filename:
                    return None
                f = f.f_back
            return self._trace_lines
        return None

    def _trace_lines(self, frame, event, _arg):
        if event != 'line':
            return self._trace_lines
        sim = self.sim
        cfg = sim.preempt
        if not cfg or self.preempted >= cfg['max'] or sim.in_harness:
            return self._trace_lines
        import linecache

        text = linecache.getline(frame.f_code.co_filename, frame.f_lineno).strip()
        if text in ('return', 'pass', 'continue', 'break'):
            return self._trace_lines  # nothing of the step is left to do after such a line: not a point of interest
        if sim.ch.flip('sched.preempt', *cfg['rate']):
            self.preempted += 1
            sim.count('sched.preempted_at_line')
            self.park(label=f'preempt:{frame.f_code.co_name}:{frame.f_lineno}')
        return self._trace_lines

    preempted = 0

    # called from inside the thread
    def park(self, pred=None, until=None, label=''):
        self.pred, self.until, self.label = pred, until, label
        self.sim._main_sem.release()
        self.sem.acquire()
        if self.dead:
            raise ThreadKilled()

    def runnable(self, now):
        if self.done or self.dead:
            return False
        if self.until is not None and self.until > now + 1e-12:
            if self.pred is None:
                return False
            # pred with timeout: runnable if pred holds
            return bool(self.pred())
        if self.pred is not None and self.until is None:
            return bool(self.pred())
        return True

    def next_time(self):
        if self.done or self.dead:
            return None
        return self.until


# --------------------------------------------------------------------------
# network
# --------------------------------------------------------------------------

EOF = object()


class NetCfg:
    """probabilities are (num, den); delays in virtual seconds."""

    def __init__(self, chunk=(0, 1), delay=(0, 1), coalesce=(0, 1),
                 short_read=(0, 1), delays=(0.0, 0.001, 0.05, 0.7, 2.0, 6.0)):
        self.chunk, self.delay, self.coalesce = chunk, delay, coalesce
        self.short_read = short_read
        self.delays = list(delays)


class Address:
    def __init__(self, host, port):
        self.host, self.port, self.type = host, port, 'TCP'

    def __repr__(self):
        return f'SimAddr({self.host}:{self.port})'

    __str__ = __repr__


class ServerTransport:
    """What a twisted Protocol sees as self.transport."""

    disconnecting = False
    disconnected = False

    def __init__(self, conn):
        self.conn = conn
        self.written = []  # every write, whole, for oracles
        self.producer = None

    def write(self, data):
        if self.disconnecting or self.disconnected:
            return
        if not isinstance(data, (bytes, bytearray)):
            raise TypeError('transport.write needs bytes')
        data = bytes(data)
        self.written.append(data)
        self.conn.send('s2c', data)

    def writeSequence(self, seq):
        self.write(b''.join(seq))

    def loseConnection(self, *_a, **_k):
        if self.disconnecting or self.disconnected:
            return
        self.disconnecting = True
        self.conn.sim.count('net.server_close')
        self.conn.enqueue('s2c', EOF, 0.0)
        self.conn.sim.soon(f'connlost:{self.conn.cid}', self.conn.server_lost)

    def abortConnection(self):
        self.conn.reset('abort')

    def getPeer(self):
        return self.conn.peer

    def getHost(self):
        return self.conn.host

    def getPeerCertificate(self):
        return self.conn.peer_cert

    def setTcpNoDelay(self, *_a):
        pass

    def setTcpKeepAlive(self, *_a):
        pass

    def registerProducer(self, producer, streaming):
        self.producer = producer

    def unregisterProducer(self):
        self.producer = None

    def pauseProducing(self):
        pass

    def resumeProducing(self):
        pass

    def stopProducing(self):
        pass

    def stopReading(self):
        pass

    def startReading(self):
        pass


class SimConn:
    def __init__(self, sim, cid, port, proto, client, peer, cert=None):
        self.sim, self.cid, self.port = sim, cid, port
        self.proto, self.client = proto, client
        self.peer = peer
        self.host = Address('10.0.0.1', port)
        self.peer_cert = cert
        self.q = {'c2s': collections.deque(), 's2c': collections.deque()}
        self.last_due = {'c2s': 0.0, 's2c': 0.0}
        self.server_gone = False  # connectionLost delivered to proto
        self.client_gone = False  # client told EOF/reset or closed itself
        self.transport = ServerTransport(self)
        self.delivered = {'c2s': 0, 's2c': 0}

    # -- sending -----------------------------------------------------------
    def enqueue(self, d, item, delay):
        due = max(self.last_due[d], self.sim.now + delay)
        self.last_due[d] = due
        self.q[d].append((due, item))

    def send(self, d, data):
        sim, cfg = self.sim, self.sim.net
        pieces = [data]
        if len(data) > 1 and sim.ch.flip('net.chunk', *cfg.chunk):
            k = 1 + sim.ch.choose('net.nchunks', 3)
            cuts = sorted({1 + sim.ch.choose('net.cut', len(data) - 1)
                           for _ in range(k)})
            pieces, last = [], 0
            for c in cuts:
                pieces.append(data[last:c])
                last = c
            pieces.append(data[last:])
            sim.count('net.chunked')
        for p in pieces:
            delay = 0.0
            if sim.ch.flip('net.delay', *cfg.delay):
                delay = cfg.delays[sim.ch.choose('net.delayv', len(cfg.delays))]
                sim.count('net.delayed')
            self.enqueue(d, p, delay)

    # -- client side API (event driven actors and SimSocket use these) ----
    def client_send(self, data):
        if self.client_gone:
            raise BrokenPipeError('sim: connection closed')
        self.send('c2s', bytes(data))

    def client_close(self):
        if self.client_gone:
            return
        self.client_gone = True
        self.enqueue('c2s', EOF, 0.0)

    # -- delivery ----------------------------------------------------------
    def due(self, d, now):
        return bool(self.q[d]) and self.q[d][0][0] <= now + 1e-12

    def next_time(self):
        ts = [self.q[d][0][0] for d in ('c2s', 's2c') if self.q[d]]
        return min(ts) if ts else None

    def deliver(self, d):
        sim = self.sim
        _due, item = self.q[d].popleft()
        if item is not EOF:
            # coalesce with following chunks that are also due
            while (self.q[d] and self.q[d][0][1] is not EOF
                   and self.q[d][0][0] <= sim.now + 1e-12
                   and sim.ch.flip('net.coalesce', *sim.net.coalesce)):
                item = item + self.q[d].popleft()[1]
                sim.count('net.coalesced')
        self.delivered[d] += 1
        if d == 'c2s':
            if item is EOF:
                self.server_lost()
            elif not (self.server_gone or self.transport.disconnecting):
                self.proto.dataReceived(item)
            else:
                sim.count('net.dropped_after_close')
        else:
            if item is EOF:
                if not self.client_gone:
                    self.client_gone = True
                    self.client.on_eof()
            elif not self.client_gone:
                self.client.on_data(item)

    def server_lost(self):
        if self.server_gone:
            return
        self.server_gone = True
        self.transport.disconnected = True
        from twisted.python.failure import Failure
        from twisted.internet.error import ConnectionDone

        self.proto.connectionLost(Failure(ConnectionDone()))

    def reset(self, why='reset'):
        """fault: both directions die now"""
        self.sim.count('net.' + why)
        self.q['c2s'].clear()
        self.q['s2c'].clear()
        if not self.client_gone:
            self.client_gone = True
            self.client.on_reset()
        self.server_lost()

    def idle(self):
        return not self.q['c2s'] and not self.q['s2c']


class SimSocket:
    """Blocking client socket for controlled threads (dawgie.security.connect)."""

    def __init__(self, sim, address, cert=None, host='10.0.1.1'):
        self.sim = sim
        self.buf = b''
        self.eof = False
        self.was_reset = False
        self.closed = False
        self._yield('connect')
        self.conn = sim.connect(address[1], self, host=host, cert=cert)

    def _yield(self, label, pred=None):
        th = current_thread()
        if th is not None:
            th.park(pred=pred, label=label)

    # conn callbacks (scheduler thread)
    def on_data(self, data):
        self.buf += data

    def on_eof(self):
        self.eof = True

    def on_reset(self):
        self.eof = True
        self.was_reset = True

    # socket API
    def sendall(self, data):
        self._yield('send')
        if self.was_reset:
            raise ConnectionResetError('sim: reset')
        self.conn.client_send(data)

    send = sendall

    def recv(self, n):
        if n <= 0:
            return b''
        self._yield('recv', pred=lambda: bool(self.buf) or self.eof)
        if not self.buf:
            if self.was_reset:
                self.sim.count('net.recv_after_reset')
            self.sim.spin_check(self)
            return b''
        k = min(n, len(self.buf))
        if k > 1 and self.sim.ch.flip('net.short_read', *self.sim.net.short_read):
            k = 1 + self.sim.ch.choose('net.short_read_n', k - 1)
            self.sim.count('net.short_read')
        out, self.buf = self.buf[:k], self.buf[k:]
        return out

    def close(self):
        if self.closed:
            return
        self.closed = True
        self._yield('close')
        self.conn.client_close()

    def shutdown(self, _how):
        pass

    def settimeout(self, _t):
        pass


# --------------------------------------------------------------------------
# reactor
# --------------------------------------------------------------------------


class SimThreadPool:
    def __init__(self, sim):
        self.sim = sim
        self.n = 0

    def callInThreadWithCallback(self, onResult, func, *args, **kw):
        sim = self.sim
        self.n += 1
        name = f'pool-{self.n}:{getattr(func, "__name__", "f")}'

        def body():
            from twisted.python.failure import Failure

            try:
                r = func(*args, **kw)
                ok = True
            except ThreadKilled:
                raise
            except BaseException:
                r = Failure()
                ok = False
            if onResult is not None:
                onResult(ok, r)

        sim.spawn(name, body)

    def callInThread(self, func, *args, **kw):
        self.callInThreadWithCallback(None, func, *args, **kw)

    def start(self):
        pass

    def stop(self):
        pass


class SimProcess:
    """what spawnProcess returns; exit decided by an actor through .exit()"""

    def __init__(self, sim, proto, exe, args):
        self.sim, self.proto, self.exe, self.args = sim, proto, exe, list(args or [])
        self.alive = True
        self.pid = 4242

    def exit(self, code):
        from twisted.python.failure import Failure
        from twisted.internet import error

        if not self.alive:
            return
        self.alive = False
        if code == 0:
            reason = error.ProcessDone(0)
        elif code < 0:  # killed by signal -code: no exit code at all
            reason = error.ProcessTerminated(None, -code, -code)
        else:
            reason = error.ProcessTerminated(code, None, code << 8)
        try:
            self.proto.processEnded(Failure(reason))
        except (Budget, HarnessError):
            raise
        except Exception as e:  # noqa  (the real reactor logs it and goes on)
            self.sim.on_unhandled('process', 'processEnded', e, None)

    def signalProcess(self, _sig):
        pass

    def loseConnection(self):
        pass

    def closeStdin(self):
        pass


class Sim:
    """scheduler + reactor.  installReactor(sim.reactor) before dawgie import;
    one Sim per forked run, created by `reset`."""

    def __init__(self):
        self.reactor = SimReactor(self)
        self.fresh(Chooser(seed=0))

    def fresh(self, chooser, net=None, epoch=None):
        self.ch = chooser
        self.net = net or NetCfg()
        self.now = 0.0
        self.seq = 0
        self.steps = 0
        self.timers = []
        self.fromthread = collections.deque()
        self.preempt = None  # dict(files=(suffixes,), rate=(num, den), max=per thread): line-level pre-emption of controlled threads
        self.in_harness = False
        self.cb_delays = None  # fault 'slow reactor': virtual delays a thread->reactor callback may wait (FIFO kept)
        self._cb_ready = 0.0
        self._soon = collections.deque()
        self.conns = []
        self.listeners = {}
        self.threads = []
        self.actors = []
        self.processes = []
        self.trace = hashlib.sha256()
        self.tracelen = 0
        self.tail = collections.deque(maxlen=400)
        self.counts = collections.Counter()
        self.kinds = collections.Counter()
        self._main_sem = threading.Semaphore(0)
        self.pool = SimThreadPool(self)
        self.after_step = []  # callbacks(label) run after every step
        self.spin = collections.Counter()
        self.epoch = epoch
        self.in_step = None
        self.unhandled = []

    # -- bookkeeping -------------------------------------------------------
    def count(self, what, n=1):
        self.counts[what] += n

    def log(self, kind, label=''):
        s = f'{self.tracelen}|{self.now:.6f}|{kind}|{label}'
        self.trace.update(s.encode())
        self.tracelen += 1
        self.tail.append(s)

    def digest(self):
        return self.trace.hexdigest()[:24]

    def spin_check(self, sock):
        self.spin[id(sock)] += 1
        if self.spin[id(sock)] >= 64:
            th = current_thread()
            self.count('thread.spinning_on_eof')
            if th is not None:
                th.dead = True
                th.park(label='spinning')

    def on_unhandled(self, kind, label, exc, obj):
        import os
        import traceback

        tb = traceback.extract_tb(exc.__traceback__)
        inner = tb[-1].filename if tb else ''
        here = os.path.dirname(os.path.dirname(os.path.abspath(__file__)))
        if type(exc).__name__ == 'Stop' or (inner.startswith(here) and not getattr(exc, 'sim_injected', False)):
            raise exc  # a bug (or the stop signal) of the harness itself: never swallowed
        self.count('reactor.unhandled_error')
        self.unhandled.append((self.steps, kind, label, repr(exc), f'{inner}:{tb[-1].lineno if tb else 0}'))
        self.log('unhandled', f'{kind}:{label}:{type(exc).__name__}')
        if kind == 'deliver' and obj[1] == 'c2s':
            obj[0].reset('abort_after_exception')

    # -- things the system under test asks for ------------------------------
    def soon(self, label, fn):
        self.seq += 1
        self._soon.append((self.seq, label, fn))

    def spawn(self, name, fn):
        th = SimThread(self, name, fn)
        self.threads.append(th)
        return th

    def listen(self, port, factory, ssl=False):
        self.listeners[int(port)] = (factory, ssl)
        factory.doStart()

    def connect(self, port, client, host='10.0.1.1', cert=None):
        if int(port) not in self.listeners:
            self.count('net.refused')
            raise ConnectionRefusedError(f'sim: nothing listens on {port}')
        factory, _ssl = self.listeners[int(port)]
        peer = Address(host, 40000 + len(self.conns))
        proto = factory.buildProtocol(peer)
        conn = SimConn(self, len(self.conns), int(port), proto, client, peer, cert)
        self.conns.append(conn)
        proto.makeConnection(conn.transport)
        self.count('net.connections')
        return conn

    # -- the scheduler -----------------------------------------------------
    def enabled(self):
        ev = []
        now = self.now
        for ent in self._soon:
            ev.append((0, ent[0], 'soon', ent[1], ent))
        if self.fromthread and self.fromthread[0][2] <= now + 1e-12:
            seq, fn, _ready = self.fromthread[0]
            ev.append((1, seq, 'fromthread', getattr(fn, '__name__', 'f'), fn))
        for dc in self.timers:
            if dc.getTime() <= now + 1e-12:
                ev.append((2, dc._simseq, 'timer', _fname(dc.func), dc))
        for c in self.conns:
            for d in ('c2s', 's2c'):
                if c.due(d, now):
                    ev.append((3, c.cid * 2 + (d == 's2c'), 'deliver', f'{c.cid}{d}', (c, d)))
        for i, th in enumerate(self.threads):
            if th.runnable(now):
                ev.append((4, i, 'thread', th.name, th))
        for i, a in enumerate(self.actors):
            for j, (label, fn) in enumerate(a.enabled(now)):
                ev.append((5, i * 1000 + j, 'actor', label, fn))
        ev.sort(key=lambda e: (e[0], e[1]))
        return ev

    def next_time(self):
        ts = [dc.getTime() for dc in self.timers]
        if self.fromthread:
            ts.append(self.fromthread[0][2])
        ts += [t for t in (c.next_time() for c in self.conns) if t is not None]
        ts += [t for t in (th.next_time() for th in self.threads) if t is not None]
        ts += [t for t in (a.next_time(self.now) for a in self.actors) if t is not None]
        ts = [t for t in ts if t > self.now + 1e-12]
        return min(ts) if ts else None

    def step(self):
        """run one event; returns False when nothing can ever happen again"""
        ev = self.enabled()
        while not ev:
            t = self.next_time()
            if t is None:
                return False
            self.now = t
            ev = self.enabled()
        i = self.ch.choose('sched', len(ev))
        if i:
            self.count('sched.reordered')
        _cat, _k, kind, label, obj = ev[i]
        self.steps += 1
        self.kinds[kind] += 1
        self.log(kind, label)
        self.in_step = (kind, label)
        armed = self._arm_alarm()
        try:
            self._exec(kind, label, obj)
        except CodeHang:
            import traceback as _tb

            if kind == 'thread':
                fr = sys._current_frames().get(obj.thread.ident)
                frames = [(f.filename, f.name, f.lineno) for f in _tb.extract_stack(fr)] if fr is not None else []
            else:
                frames = [(f.filename, f.name, f.lineno) for f in _tb.extract_tb(sys.exc_info()[2])]
            where = _tree_frame(frames)
            if where is None:
                raise HarnessError(f'a step ({kind}:{label}) took more than {STEP_HANG} s inside the harness: {frames[-3:]}')
            raise Hung(kind, label, where)
        finally:
            if armed:
                import signal

                signal.setitimer(signal.ITIMER_REAL, 0)
        self.in_step = None
        # forget finished connections / threads to keep `enabled` cheap
        for cb in self.after_step:
            cb(kind, label)
        return True

    def _arm_alarm(self):
        import signal

        if threading.current_thread() is not threading.main_thread():
            return False
        if signal.getsignal(signal.SIGALRM) is not _alarm:
            signal.signal(signal.SIGALRM, _alarm)
        signal.setitimer(signal.ITIMER_REAL, STEP_HANG, 1.0)  # again every second: the code under test has bare excepts
        return True

    def _exec(self, kind, label, obj):
        if kind == 'thread':
            obj.steps += 1
            obj.sem.release()
            self._main_sem.acquire()
        elif kind == 'actor':
            obj()
        else:
            # what the real reactor does with an exception escaping a callback: log it and go on
            # (and drop the connection when it escaped dataReceived)
            try:
                if kind == 'soon':
                    self._soon.remove(obj)
                    obj[2]()
                elif kind == 'fromthread':
                    self.fromthread.popleft()
                    obj()
                elif kind == 'timer':
                    self.timers.remove(obj)
                    if obj.getTime() > self.now:
                        # due within the 1e-12 tolerance: the clock reads the timer's own time when it fires,
                        # otherwise a LoopingCall (it re-reads the clock) can reschedule itself for ever at one instant
                        self.now = obj.getTime()
                    obj.called = 1
                    obj.func(*obj.args, **obj.kw)
                elif kind == 'deliver':
                    obj[0].deliver(obj[1])
            except (Budget, HarnessError):
                raise
            except Exception as e:  # noqa
                self.on_unhandled(kind, label, e, obj)

    def run(self, until=None, max_steps=2000, max_time=None):
        while True:
            if until is not None and until():
                return 'until'
            if self.steps >= max_steps:
                return 'steps'
            if max_time is not None and self.now >= max_time:
                return 'time'
            if not self.step():
                return 'quiescent'



def _fname(f):
    n = getattr(f, '__qualname__', None) or getattr(f, '__name__', None)
    if n is None:
        n = type(f).__name__
        inner = getattr(f, 'f', None)
        if inner is not None:
            n += ':' + (_fname(inner))
    return n


class SimReactor:
    """The subset of IReactor* that dawgie and the twisted pieces it uses call."""

    running = True

    def __init__(self, sim):
        self.sim = sim

    # IReactorTime
    def seconds(self):
        return self.sim.now

    def callLater(self, delay, f, *args, **kw):
        from twisted.internet.base import DelayedCall

        sim = self.sim
        dc = DelayedCall(sim.now + max(0.0, float(delay)), f, args, kw,
                         self._cancel, self._reset, self.seconds)
        sim.seq += 1
        dc._simseq = sim.seq
        sim.timers.append(dc)
        return dc

    def _cancel(self, dc):
        if dc in self.sim.timers:
            self.sim.timers.remove(dc)

    def _reset(self, dc):
        pass

    def getDelayedCalls(self):
        return list(self.sim.timers)

    # IReactorThreads
    def callFromThread(self, f, *args, **kw):
        sim = self.sim
        sim.seq += 1
        if args or kw:
            import functools

            g = functools.partial(f, *args, **kw)
            g.__name__ = _fname(f)
        else:
            g = f
        ready = sim.now
        if sim.cb_delays:
            d = sim.cb_delays[sim.ch.choose('sched.slow_reactor', len(sim.cb_delays))]
            if d:
                sim.count('fault.slow_reactor_callback')
                ready = sim.now + d
        ready = max(ready, sim._cb_ready)  # callbacks from threads keep their order
        sim._cb_ready = ready
        sim.fromthread.append((sim.seq, g, ready))

    def callInThread(self, f, *args, **kw):
        self.sim.pool.callInThread(f, *args, **kw)

    def getThreadPool(self):
        return self.sim.pool

    def suggestThreadPoolSize(self, _n):
        pass

    # IReactorTCP / SSL
    def listenTCP(self, port, factory, backlog=50, interface=''):
        self.sim.listen(port, factory, ssl=False)
        return _Port(port)

    def listenSSL(self, port, factory, contextFactory, backlog=50, interface=''):
        self.sim.listen(port, factory, ssl=True)
        return _Port(port)

    # IReactorProcess
    def spawnProcess(self, proto, executable, args=(), env=None, path=None,
                     uid=None, gid=None, usePTY=False, childFDs=None):
        p = SimProcess(self.sim, proto, executable, args)
        self.sim.processes.append(p)
        self.sim.count('proc.spawned')
        proto.makeConnection(p)
        return p

    # IReactorCore
    def addSystemEventTrigger(self, *_a, **_k):
        return object()

    def removeSystemEventTrigger(self, *_a):
        pass

    def callWhenRunning(self, f, *a, **k):
        return self.callLater(0, f, *a, **k)

    def run(self, *_a, **_k):
        pass

    def stop(self):
        self.sim.count('reactor.stop')

    def crash(self):
        pass

    def resolve(self, name, timeout=()):
        from twisted.internet import defer

        return defer.succeed('127.0.0.1')

    def fireSystemEvent(self, *_a):
        pass


class _Port:
    def __init__(self, port):
        self.port = port

    def stopListening(self):
        return None

    def getHost(self):
        return Address('10.0.0.1', self.port)


SIM = None


def install():
    """Create the process-wide Sim and install its reactor.  Must run before
    anything imports twisted.internet.reactor."""
    global SIM
    if SIM is not None:
        return SIM
    import sys

    if 'twisted.internet.reactor' in sys.modules:
        raise HarnessError('a reactor is already installed')
    SIM = Sim()
    from twisted.internet.main import installReactor

    installReactor(SIM.reactor)
    return SIM
