"""Process set-up: import the tree under test under the simulated reactor,
install the clock seam, stub what DESIGN.md section 4 lists as stubs.

Everything here is done once per run-server process (the warmed-up parent);
each run is a fork of it.
"""

import datetime as _dt
import hashlib
import logging
import os
import sys
import types

TREE = os.environ.get('VERIF_TREE', '/repo')
PY = os.path.join(TREE, 'Python')
EPOCH = _dt.datetime(2024, 1, 1, 0, 0, 0, tzinfo=_dt.timezone.utc)

_state = {'sim': None, 'skew': 0.0, 'epoch': EPOCH}


def now_dt():
    sim = _state['sim']
    return _state['epoch'] + _dt.timedelta(seconds=sim.now + _state['skew'])


def set_epoch(dt):
    _state['epoch'] = dt


def clock_jump(seconds):
    _state['skew'] += seconds


class SimDateTime(_dt.datetime):
    """datetime.datetime whose now()/utcnow() read the simulated clock"""

    @classmethod
    def now(cls, tz=None):
        t = now_dt()
        if tz is None:
            t = t.replace(tzinfo=None)
        else:
            t = t.astimezone(tz)
        return cls(t.year, t.month, t.day, t.hour, t.minute, t.second,
                   t.microsecond, t.tzinfo)

    @classmethod
    def utcnow(cls):
        return cls.now(None)

    @classmethod
    def today(cls):
        return cls.now(None)


_dtshim = types.ModuleType('datetime')
for _k in dir(_dt):
    if not _k.startswith('__'):
        setattr(_dtshim, _k, getattr(_dt, _k))
_dtshim.datetime = SimDateTime
if not hasattr(_dtshim, 'UTC'):
    _dtshim.UTC = _dt.timezone.utc


class _TimeShim(types.ModuleType):
    pass


def _sleep(seconds):
    from . import core

    th = core.current_thread()
    sim = _state['sim']
    if th is None:
        sim.count('clock.sleep_in_reactor_thread')
        return
    sim.count('clock.sleep')
    th.park(until=sim.now + max(0.0, float(seconds)) * getattr(th, 'poll_scale', 1.0), label='sleep')  # poll_scale: a tuning knob of the harness (slower polling = fewer steps)


def _make_timeshim():
    import time as _t

    m = _TimeShim('time')
    for k in dir(_t):
        if not k.startswith('__'):
            setattr(m, k, getattr(_t, k))
    m.sleep = _sleep
    m.time = lambda: (now_dt() - _dt.datetime(1970, 1, 1, tzinfo=_dt.timezone.utc)).total_seconds()
    m.monotonic = lambda: _state['sim'].now
    return m


def tree_hash():
    h = hashlib.sha256()
    root = os.path.join(PY, 'dawgie')
    for dp, dn, fn in sorted(os.walk(root)):
        dn.sort()
        if '__pycache__' in dp:
            continue
        for f in sorted(fn):
            if f.endswith(('.py', '.dot')):
                p = os.path.join(dp, f)
                h.update(os.path.relpath(p, root).encode())
                with open(p, 'rb') as fh:
                    h.update(fh.read())
    return h.hexdigest()[:16]


class ListHandler(logging.Handler):
    def __init__(self):
        super().__init__(level=logging.DEBUG)
        self.records = []

    def emit(self, record):
        if record.levelno >= logging.WARNING:
            try:
                msg = record.getMessage()
                if record.exc_info and record.exc_info[1] is not None:
                    msg += f' :: {record.exc_info[1]!r}'
                self.records.append((record.levelname, record.name, msg))
            except Exception:  # noqa
                self.records.append((record.levelname, record.name, str(record.msg)))


LOGS = ListHandler()


def setup():
    """import dawgie from the tree under the simulated reactor; idempotent"""
    if _state['sim'] is not None:
        return _state['sim']
    sys.dont_write_bytecode = True
    if PY not in sys.path[:1]:
        sys.path.insert(0, PY)
    import warnings

    warnings.simplefilter('ignore')
    os.environ.setdefault('USERNAME', 'sim')
    os.environ['DAWGIE_DOCKERIZED_AE_GIT_REVISION'] = 'rev0'
    from . import core

    sim = core.install()
    _state['sim'] = sim
    root = logging.getLogger()
    root.handlers[:] = [LOGS]
    root.setLevel(logging.WARNING)

    import dawgie

    if not os.path.abspath(dawgie.__file__).startswith(os.path.abspath(PY)):
        raise core.HarnessError(f'dawgie imported from {dawgie.__file__}, not from {PY}')
    # every module the worlds use, imported now so the clock seam sees them
    import dawgie.base  # noqa
    import dawgie.context  # noqa
    import dawgie.db  # noqa
    import dawgie.db.shelve  # noqa
    import dawgie.db.tools.worm  # noqa
    import dawgie.pl.state  # noqa  (pulls farm, schedule, dag, fe, ...)
    import dawgie.pl.worker  # noqa
    import dawgie.pl.worker.cluster  # noqa
    import dawgie.pl.logger  # noqa
    import dawgie.pl.snapshot  # noqa
    import dawgie.fe.api  # noqa
    import dawgie.fe.app  # noqa

    patch_clock()
    patch_stubs()
    root.handlers[:] = [LOGS]
    root.setLevel(logging.WARNING)
    return sim


def patch_clock():
    tshim = _make_timeshim()
    import time as _t

    n = 0
    for name, mod in list(sys.modules.items()):
        if mod is None or not (name == 'dawgie' or name.startswith('dawgie.')):
            continue
        d = mod.__dict__
        if d.get('datetime') is _dt:
            d['datetime'] = _dtshim
            n += 1
        elif d.get('datetime') is _dt.datetime:
            d['datetime'] = SimDateTime
            n += 1
        if d.get('time') is _t:
            d['time'] = tshim
            n += 1
    return n


_DOT_CACHE = {}


def patch_stubs():
    """stubs of DESIGN.md section 4 that are the same in every world"""
    import pydot

    def fake_write(self, path, prog=None, format='raw', encoding=None):
        with open(path, 'wb') as f:
            f.write(b'<svg/>')
        return True

    pydot.Dot.write = fake_write
    real_gfdf = pydot.graph_from_dot_file

    def cached_gfdf(path, encoding=None):
        import copy

        key = str(path)
        if key not in _DOT_CACHE:
            _DOT_CACHE[key] = real_gfdf(path) if encoding is None else real_gfdf(path, encoding)
        return copy.deepcopy(_DOT_CACHE[key])

    pydot.graph_from_dot_file = cached_gfdf

    import dawgie.security as sec
    import dawgie.context as ctx

    sec._my_ip = lambda: '10.0.1.1'
    import getpass

    getpass.getuser = lambda: 'sim'
    ctx.email_signature = 'sim'
