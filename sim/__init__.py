"""Deterministic simulation kernel for DAWGIE (see /verif/DESIGN.md section 2)."""
