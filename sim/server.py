"""Run server: imports the tree once, then forks one child per simulated run.

Protocol (JSON lines on stdin/stdout):
  {"id":..,"prop":..,"batch":..,"seed":int}            search-mode run
  {"id":..,"prop":..,"batch":..,"choices":[..]}        replay-mode run
  {"id":..,"shrink":{prop,batch,choices,rule,property}} minimise
Each answer is one JSON line with the same id.
"""

import faulthandler
import gc
import importlib
import json
import os
import select
import signal
import sys
import time
import traceback

CHILD_TIMEOUT = float(os.environ.get('VERIF_CHILD_TIMEOUT', '90'))


def load_registry():
    from checks import registry

    return registry


def run_in_child(fn, timeout=CHILD_TIMEOUT):
    """fork, run fn() in the child, return its JSON-able result"""
    r, w = os.pipe()
    pid = os.fork()
    if pid == 0:
        code = 0
        try:
            gc.disable()
            os.close(r)
            # stdout of this process is the JSON-lines channel of the run server: anything the code under test
            # prints (dawgie prints warnings when TLS is off) must not reach it
            devnull = os.open(os.devnull, os.O_WRONLY)
            os.dup2(devnull, 1)
            sys.stdout = open(os.devnull, 'w')
            faulthandler.dump_traceback_later(timeout - 5, exit=True)
            try:
                res = fn()
            except BaseException:  # harness error, never a violation
                res = {'harness_error': traceback.format_exc()[-3000:]}
            data = json.dumps(res, default=str).encode()
            with os.fdopen(w, 'wb') as f:
                f.write(data)
        except BaseException:
            code = 3
        finally:
            os._exit(code)
    os.close(w)
    chunks = []
    deadline = time.monotonic() + timeout
    timed_out = False
    while True:
        left = deadline - time.monotonic()
        if left <= 0:
            timed_out = True
            break
        rd, _, _ = select.select([r], [], [], left)
        if not rd:
            timed_out = True
            break
        b = os.read(r, 1 << 16)
        if not b:
            break
        chunks.append(b)
    os.close(r)
    if timed_out:
        try:
            os.kill(pid, signal.SIGKILL)
        except ProcessLookupError:
            pass
    os.waitpid(pid, 0)
    if timed_out:
        return {'harness_error': 'harness_timeout'}
    try:
        return json.loads(b''.join(chunks).decode())
    except Exception:  # noqa
        return {'harness_error': 'child died without a result'}


def one_run(prop, batch, seed=None, choices=None, keep_choices=False):
    from sim import core

    reg = load_registry()
    spec = reg.PROPS[prop]['batches'][batch]
    world = importlib.import_module(spec['world'])
    ch = core.Chooser(seed=seed) if choices is None else core.Chooser(replay=choices)
    cfg = dict(spec.get('cfg') or {})
    cfg.setdefault('prop', prop)
    from sim import boot

    nlog = len(boot.LOGS.records)
    try:
        res = world.run(ch, cfg)
    except core.Hung as e:
        # an endless loop in the code under test is a violation of whatever is being checked (nothing holds in a
        # pipeline that has stopped); the process is poisoned (a controlled thread may still spin): no more runs here
        sim = boot.setup()
        v = dict(property=prop, rule='code_hangs', signature=e.where.rsplit(':', 1)[0], step=sim.steps, t=round(sim.now, 3),
                 message=f'one step of the system ({e.kind} {e.label}) did not end within {core.STEP_HANG:.0f} s of real time: endless loop at {e.where}')
        res = dict(violations=[v], probes={'code_hangs': 1}, faults={}, steps=sim.steps, vtime=round(sim.now, 3), digest=sim.digest(),
                   nontrivial=True, kinds=dict(sim.kinds), sample=[v['message']], ops=[v['message']], unhandled=[], poisoned=True)
    res['nchoices'] = len(ch.rec)
    if os.environ.get('VERIF_SHOW_LOGS'):
        res['logs'] = [list(r) for r in boot.LOGS.records[nlog:]][:200]
    if res.get('violations') or keep_choices:
        res['choices'] = ch.values()
    else:
        res.pop('ops', None)
    return res


def many_runs(prop, batch, seeds):
    """several runs in one forked child (a fork per run costs ~1 s of page faults
    under 16-way load in this VM); every world resets all process-global state
    at the start of a run, and the master re-runs any violating seed alone in a
    fresh child before believing it"""
    out = []
    poisoned = False
    for pos, seed in enumerate(seeds):
        if poisoned:
            out.append({'retry': True, 'pos': pos})  # not run: the master sends these seeds to a fresh child
            continue
        try:
            r = one_run(prop, batch, seed=seed)
        except BaseException:  # harness error, never a violation
            r = {'harness_error': traceback.format_exc()[-3000:]}
        r['pos'] = pos
        out.append(r)
        poisoned = bool(r.get('poisoned'))
    return {'results': out}


def same_violation(res, prop, rule, sig=None):
    return any(v['property'] == prop and v['rule'] == rule and (sig is None or v['signature'] == sig)
               for v in res.get('violations') or [])


def shrink(prop, batch, choices, vprop, rule, sig=None, max_runs=900, max_wall=float(os.environ.get("VERIF_SHRINK_WALL", "180"))):
    """delta debugging on the choice list; 0 is the boring value"""
    t0 = time.monotonic()
    runs = [0]

    def fails(cand):
        if runs[0] >= max_runs or time.monotonic() - t0 > max_wall:
            return False
        runs[0] += 1
        res = run_in_child(lambda: one_run(prop, batch, choices=cand), timeout=30)
        return same_violation(res, vprop, rule, sig)

    best = list(choices)
    # 1. truncate the tail
    lo, hi = 0, len(best)
    while lo < hi:
        mid = (lo + hi) // 2
        if fails(best[:mid]):
            hi = mid
        else:
            lo = mid + 1
    if hi < len(best) and fails(best[:hi]):
        best = best[:hi]
    # strip trailing zeros (equivalent by construction)
    while best and best[-1] == 0:
        best.pop()
    # 2. delete chunks, 3. zero chunks
    for mode in ('delete', 'zero'):
        size = max(1, len(best) // 2)
        while size >= 1:
            i = 0
            while i < len(best):
                if mode == 'delete':
                    cand = best[:i] + best[i + size:]
                else:
                    if all(v == 0 for v in best[i:i + size]):
                        i += size
                        continue
                    cand = best[:i] + [0] * len(best[i:i + size]) + best[i + size:]
                if cand != best and fails(cand):
                    best = cand
                    if mode == 'zero':
                        i += size
                else:
                    i += size
            size //= 2
        while best and best[-1] == 0:
            best.pop()
    # 4. lower single values
    for i in range(len(best)):
        v = best[i]
        while v > 0:
            cand = best[:i] + [v // 2 if v > 1 else 0] + best[i + 1:]
            if fails(cand):
                best = cand
                v = best[i]
            else:
                break
    final = run_in_child(lambda: one_run(prop, batch, choices=best, keep_choices=True), timeout=30)
    if not same_violation(final, vprop, rule, sig):
        best = list(choices)
        final = run_in_child(lambda: one_run(prop, batch, choices=best, keep_choices=True), timeout=30)
    return {'choices': best, 'result': final, 'shrink_runs': runs[0]}


def main():
    sys.path.insert(0, os.path.dirname(os.path.dirname(os.path.abspath(__file__))))
    reg = load_registry()
    warmed = set()
    out = sys.stdout
    for line in sys.stdin:
        line = line.strip()
        if not line:
            continue
        job = json.loads(line)
        if job.get('quit'):
            break
        try:
            if 'shrink' in job:
                s = job['shrink']
                w = reg.PROPS[s['prop']]['batches'][s['batch']]['world']
                if w not in warmed:
                    importlib.import_module(w).warmup()
                    warmed.add(w)
                res = shrink(s['prop'], s['batch'], s['choices'], s['property'], s['rule'], s.get('signature'))
            else:
                w = reg.PROPS[job['prop']]['batches'][job['batch']]['world']
                if w not in warmed:
                    importlib.import_module(w).warmup()
                    warmed.add(w)
                if 'seeds' in job:
                    res = run_in_child(lambda: many_runs(job['prop'], job['batch'], job['seeds']),
                                       timeout=(CHILD_TIMEOUT + 2.0 * len(job['seeds'])) * float(job.get('timeout_scale', 1)))
                    if 'harness_error' in res:
                        res = {'results': [dict(res) for _ in job['seeds']]}
                else:
                    res = run_in_child(lambda: one_run(job['prop'], job['batch'], seed=job.get('seed'),
                                                       choices=job.get('choices'), keep_choices=job.get('keep', False)))
        except BaseException:
            res = {'harness_error': traceback.format_exc()[-3000:]}
        res['id'] = job.get('id')
        res['hashseed'] = os.environ.get('PYTHONHASHSEED')
        out.write(json.dumps(res, default=str) + '\n')
        out.flush()


if __name__ == '__main__':
    main()
