"""Self-tests of the machinery: determinism (same seed -> same event log,
whatever the position in a chunk, the number of servers, the ambient hash
seed), replay from the choice list alone, and mutant sensitivity."""

import json
import os
import subprocess
import sys
import time

from . import cli


def _digests(results):
    return [(r.get('digest'), r.get('steps'), len(r.get('violations') or []), r.get('harness_error')) for r in results]


def determinism(props, n, seed):
    from checks import registry

    props = props or sorted(registry.PROPS)
    bad = 0
    for spec in props:
        prop, _, only = spec.partition(':')  # 'C09' = every batch, 'C09:2' = batch 2 only
        P = registry.PROPS[prop]
        for b, batch in enumerate(P['batches']):
            if only and int(only) != b:
                continue
            jobs = [dict(id=i, prop=prop, batch=b, seed=cli.derive_seed(seed + 7919, prop, b, i), hclass=i % cli.HCLASSES)
                    for i in range(n)]
            t0 = time.monotonic()
            cli.CHUNK = 1
            r1, s1 = cli.run_jobs(jobs, 16)
            for s in s1:
                s.close()
            cli.CHUNK = 20
            os.environ['PYTHONHASHSEED_AMBIENT'] = '99'
            r2, s2 = cli.run_jobs(list(reversed(jobs)), 4)
            r2 = list(reversed(r2))
            d1, d2 = _digests(r1), _digests(r2)
            diff = [i for i in range(n) if d1[i] != d2[i]]
            herr = [r.get('harness_error') for r in r1 + r2 if r.get('harness_error')]
            # replay from choices alone
            rep_bad = 0
            for i in range(min(n, 12)):
                serv = next(s for s in s2 if s.hclass == jobs[i]['hclass'])
                a = serv.call(dict(id='k', prop=prop, batch=b, seed=jobs[i]['seed'], keep=True))
                c = serv.call(dict(id='r', prop=prop, batch=b, choices=a.get('choices'), keep=True))
                if a.get('digest') != c.get('digest') or a.get('digest') != r1[i].get('digest'):
                    rep_bad += 1
            for s in s2:
                s.close()
            status = 'OK' if not diff and not rep_bad and not herr else 'FAIL'
            print(f'determinism {prop}/{batch.get("name", b)}: n={n} isolated-vs-chunked diffs={len(diff)} '
                  f'replay-from-choices diffs={rep_bad} harness_errors={len(herr)} {status} ({time.monotonic() - t0:.1f}s)')
            if diff:
                print('   first diverging run_seed', jobs[diff[0]]['seed'], d1[diff[0]], d2[diff[0]])
            if herr:
                print('   ', str(herr[0])[-600:])
            bad += bool(diff or rep_bad or herr)
    return 2 if bad else 0


def mutants(props):
    """apply each patch under mutants/<prop>/ to a scratch copy of the tree and
    demand a VIOLATION from the quick tier"""
    import glob
    import shutil

    root = cli.ROOT
    from checks import registry

    props = props or sorted(registry.PROPS)
    rows = []
    for prop in props:
        for patch in sorted(glob.glob(os.path.join(root, 'mutants', prop, '*.patch'))):
            flt = os.environ.get('VERIF_MUTANT_FILTER')
            if flt and not any(f in f'{prop}/{os.path.basename(patch)}' for f in flt.split(',')):
                continue
            scratch = f'/dev/shm/verif-mutant-{os.getpid()}'
            shutil.rmtree(scratch, ignore_errors=True)
            os.makedirs(scratch)
            subprocess.run(['cp', '-r', '/repo/Python', scratch + '/Python'], check=True)
            ap = subprocess.run(['patch', '-p1', '-d', scratch, '-i', patch], capture_output=True, text=True)
            if ap.returncode != 0:
                rows.append((prop, os.path.basename(patch), 'PATCH-FAILED'))
                shutil.rmtree(scratch, ignore_errors=True)
                continue
            env = dict(os.environ, VERIF_TREE=scratch, VERIF_EVIDENCE_DIR=scratch + '/evidence', VERIF_REPLAY_DIR=scratch + '/replays', VERIF_STOP_FIRST='1', VERIF_NO_SHRINK='1', VERIF_WALL_SCALE=os.environ.get('VERIF_WALL_SCALE', '3'))
            p = subprocess.run([os.path.join(root, 'verif'), 'check', prop, '--tier', 'quick'], env=env, capture_output=True, text=True)
            caught = f'VIOLATION property={prop}' in p.stdout
            rows.append((prop, os.path.basename(patch), 'caught' if caught else f'MISSED rc={p.returncode}'))
            shutil.rmtree(scratch, ignore_errors=True)
            print(rows[-1], flush=True)
    missed = [r for r in rows if r[2] != 'caught']
    print(json.dumps(rows, indent=1))
    return 1 if missed else 0
