#!/bin/bash
# usage: tools/seedcheck.sh PROP K [CHECKPROP...]   - confirm a seeded change and run the check(s) against it
# 1. demo passes on the agent's clean worktree and fails with the change   2. check(s) on a scratch copy of /repo/Python with the change
PROP=$1; K=$2; shift 2; CHECKS=${@:-$PROP}
WT=/tmp/mut/$PROP; OUT=/tmp/mut/$PROP.out; D=$OUT/m$K.diff
[ -f $D ] || { echo "no $D"; exit 2; }
DEMO=$(ls $OUT/m${K}_demo* 2>/dev/null | head -1)
git -C $WT checkout -q -- . ; git -C $WT clean -qfd Python Test >/dev/null 2>&1
run_demo() { ( cd $WT && case "$DEMO" in *test_*|*_test.py) PYTHONPATH=$WT/Python timeout 600 /venv/bin/python -m pytest -q -p no:cacheprovider $DEMO ;; *) PYTHONPATH=$WT/Python timeout 600 /venv/bin/python $DEMO ;; esac ) >/dev/shm/seed_demo.log 2>&1; echo $?; }
A=$(run_demo)
git -C $WT apply $D || { echo "patch does not apply to worktree"; exit 2; }
B=$(run_demo)
git -C $WT checkout -q -- .
echo "demo: unchanged rc=$A  changed rc=$B"
S=/dev/shm/seed/$PROP-m$K; rm -rf $S; mkdir -p $S; cp -r /repo/Python $S/Python
( cd $S && git apply --unsafe-paths --directory=$S $D 2>/dev/null || patch -s -p1 -d $S -i $D ) || { echo "patch does not apply to /repo copy"; exit 2; }
cd /verif
for C in $CHECKS; do
  R=$(VERIF_TREE=$S VERIF_EVIDENCE_DIR=$S/evidence VERIF_REPLAY_DIR=$S/replays VERIF_STOP_FIRST=1 VERIF_NO_SHRINK=1 VERIF_JOBS=${VERIF_JOBS:-6} VERIF_CHUNK=6 VERIF_WALL_SCALE=${VERIF_WALL_SCALE:-4} timeout 1500 ./verif check $C --tier quick 2>&1 | grep -v "^WARN")
  if echo "$R" | grep -q "VIOLATION property=$C"; then echo "check $C: CAUGHT  $(echo "$R" | grep -m1 'rule=' | cut -c1-200)"; else echo "check $C: MISSED  $(echo "$R" | tail -1 | cut -c1-200)"; fi
done
rm -rf $S
