#!/usr/bin/env python3
"""usage: tools/seedsave.py PROP K 'what I ran / result text' [SRC [SRCK]] -> /verif/seeded/PROP-mK/{patch.diff,demo.py,meta.json}
(SRC: name of the agent's output directory /tmp/mut/SRC.out if it differs from PROP; SRCK: its number there)"""
import json, os, shutil, sys, glob
prop, k, note = sys.argv[1], sys.argv[2], sys.argv[3]
src = sys.argv[4] if len(sys.argv) > 4 else prop
sk = sys.argv[5] if len(sys.argv) > 5 else k
out = f'/tmp/mut/{src}.out'
dst = f'/verif/seeded/{prop}-m{k}'
os.makedirs(dst, exist_ok=True)
shutil.copy(f'{out}/m{sk}.diff', f'{dst}/patch.diff')
demo = sorted(glob.glob(f'{out}/m{sk}_demo*'))[0]
shutil.copy(demo, f'{dst}/' + ('demo.py' if demo.endswith('.py') else os.path.basename(demo)))
meta = {}
try:
    meta = json.load(open(f'{out}/m{sk}.json'))
except Exception as e:
    meta = {'property': prop, 'summary': f'(agent meta unreadable: {e})'}
meta['property'] = prop
meta['confirmed_by_lead'] = note
meta['how_to_run_demo'] = f'PYTHONPATH=<tree>/Python /venv/bin/python demo.py  (exit 0 on the unchanged tree, non-zero with patch.diff applied)'
json.dump(meta, open(f'{dst}/meta.json', 'w'), indent=1)
print('saved', dst)
