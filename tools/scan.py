#!/venv/bin/python
"""debug helper: run N seeds of a batch, group violations of ANY property by rule/signature, print one example each
usage: tools/scan.py PROP BATCH N [--show RULE] [--jobs J]"""
import argparse, collections, json, os, sys
sys.path.insert(0, os.path.dirname(os.path.dirname(os.path.abspath(__file__))))
from sim import cli

ap = argparse.ArgumentParser()
ap.add_argument('prop'); ap.add_argument('batch', type=int); ap.add_argument('n', type=int)
ap.add_argument('--show', default=None); ap.add_argument('--jobs', type=int, default=6); ap.add_argument('--seed', type=int, default=0)
ap.add_argument('--tail', type=int, default=45)
a = ap.parse_args()
jobs = [dict(id=i, prop=a.prop, batch=a.batch, seed=cli.derive_seed(a.seed, a.prop, a.batch, i), hclass=i % cli.HCLASSES) for i in range(a.n)]
res, servers = cli.run_jobs(jobs, a.jobs)
groups = collections.defaultdict(list)
herr = 0
for j, r in zip(jobs, res):
    if r is None or 'harness_error' in r:
        herr += 1
        if herr <= 2 and r: print('HARNESS', j['seed'], r['harness_error'][-1500:])
        continue
    for v in r.get('violations') or []:
        groups[(v['property'], v['rule'], v['signature'])].append((j, r, v))
for k, lst in sorted(groups.items()):
    print(len(lst), k, 'e.g. index', lst[0][0]['id'], 'seed', lst[0][0]['seed'])
print('harness errors', herr)
if a.show:
    for k, lst in sorted(groups.items()):
        if a.show in f'{k[0]}/{k[1]}/{k[2]}':
            j, r, v = min(lst, key=lambda t: t[1].get('steps', 0))
            s = servers[j['hclass']]
            rr = s.call(dict(id='x', prop=a.prop, batch=a.batch, seed=j['seed'], keep=True))
            for l in (rr.get('ops') or [])[-a.tail:]:
                print('   ', l)
            print(v)
            break
for s in servers:
    s.close()
