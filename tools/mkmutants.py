#!/usr/bin/env python3
"""generate mutants/<PROP>/NN-name.patch from (file, old, new) triples against /repo's working tree"""
import difflib, os, sys
ROOT = os.path.dirname(os.path.dirname(os.path.abspath(__file__)))
TREE = '/repo'

def make(prop, n, name, edits):
    out = ''
    for rel, old, new in edits:
        p = os.path.join(TREE, rel)
        src = open(p).read()
        if src.count(old) != 1:
            print(f'!! {prop}/{n:02d}-{name}: pattern occurs {src.count(old)} times in {rel}')
            return False
        dst = src.replace(old, new)
        out += ''.join(difflib.unified_diff(src.splitlines(True), dst.splitlines(True), 'a/' + rel, 'b/' + rel))
    d = os.path.join(ROOT, 'mutants', prop)
    os.makedirs(d, exist_ok=True)
    open(os.path.join(d, f'{n:02d}-{name}.patch'), 'w').write(out)
    return True

S = 'Python/dawgie/pl/schedule.py'
F = 'Python/dawgie/pl/farm.py'
D = 'Python/dawgie/pl/dag.py'
ST = 'Python/dawgie/pl/state.py'
M = []
# ---- C01
M += [('C01', 1, 'ancestry-parents-only', [(S, "for dep in jobs.keys() & job.get('ancestry'):", "for dep in jobs.keys() & {p.tag for p in job.get('parents')}:")]),
      ('C01', 2, 'all-targets-marker-of-upstream-ignored', [(S, """                    if (
                        target == '__all__'
                        or '__all__' in dependency.get('todo')
                        or '__all__' in dependency.get('doing')
                    ):""", """                    if target == '__all__':""")]),
      ('C01', 3, 'upstream-executing-ignored', [(S, """                    if (
                        target in dependency.get('todo')
                        or target in dependency.get('doing')
                    ) and target in available:""", """                    if (
                        target in dependency.get('todo')
                    ) and target in available:""")]),
      ('C01', 4, 'analysis-gate-dropped', [(S, """                    if (
                        target == '__all__'
                        or '__all__' in dependency.get('todo')""", """                    if (
                        False
                        or '__all__' in dependency.get('todo')""")]),
      ('C01', 5, 'queue-lookup-first-level-only', [(S, "            for dep in jobs.keys() & job.get('ancestry'):", "            for dep in list(jobs.keys() & job.get('ancestry'))[:1]:")]),
]
# ---- C02
M += [('C02', 1, 'propagation-at-algorithm-granularity', [(S, "                if dawgie.util.vref_as_name(vref) in vns:", "                if '.'.join(dawgie.util.vref_as_name(vref).split('.')[:2]) in {'.'.join(v.split('.')[:2]) for v in vns}:")]),
      ('C02', 2, 'isnew-flag-ignored', [(S, "        for vn, _isnew in filter(lambda t: t[1], values):", "        for vn, _isnew in values:")]),
      ('C02', 3, 'feedback-consumers-dropped', [(S, "            if fvn in dawgie.pl.schedule.ae.feedbacks:", "            if False and fvn in dawgie.pl.schedule.ae.feedbacks:")]),
      
      ('C02', 5, 'only-first-consumer-triggered', [(S, "        organize(sorted(task_names), rid, targets, event)", "        organize(sorted(task_names)[:1], rid, targets, event)")]),
      ('C02', 6, 'analysis-consumer-gets-target-not-all', [(S, """                if _is_asp(n):
                    n.get('todo').add('__all__')
                elif '__all__' in targets:""", """                if _is_asp(n) and not targets:
                    n.get('todo').add('__all__')
                elif '__all__' in targets:""")]),
]
# ---- C03
M += [('C03', 2, 'busy-list-not-pruned', [(F, """        while 0 < _busy.count(done):
            _busy.remove(done)
            if done in _time:
                del _time[done]
            pass
""", "")]),
      ('C03', 3, 'rerelease-while-executing', [(S, """            for target in job.get('doing'):
                available.discard(target)
""", "")]),
      ('C03', 4, 'completion-recorded-twice', [(S, """    dawgie.pl.logger.chronicle.append(
        {
            'changeset': dawgie.context.git_rev,
            'runid': runid,""", """    dawgie.pl.logger.chronicle.append(
        {'changeset': dawgie.context.git_rev, 'runid': runid, 'status': status.name, 'target': target, 'task': job.tag, 'timing': dict(timing), 'version': job.get('alg').asstring()}
    ) if len(job.get('doing')) > 1 else None
    dawgie.pl.logger.chronicle.append(
        {
            'changeset': dawgie.context.git_rev,
            'runid': runid,""")]),
      ('C03', 5, 'failure-purges-executing-dependents', [(F, "dawgie.pl.schedule.purge(job, inc, executing=False)", "dawgie.pl.schedule.purge(job, inc)")]),
      ('C03', 6, 'find-by-prefix', [(S, "    avail = list(filter(lambda j: j.tag == jobid, que))", "    avail = list(filter(lambda j: j.tag.startswith(jobid), que))")]),
]
# ---- C04
M += [('C04', 2, 'empty-entries-queued', [(S, "        filter(lambda j: j.get('todo') or j.get('doing'), jobs.values()),", "        jobs.values(),")]),
      ('C04', 3, 'purged-dependents-stay-queued', [(S, """    if node in que and not (node.get('todo') or node.get('doing')):
        que.remove(node)
        node.set('status', State.waiting)
""", "")]),
      ('C04', 4, 'analysis-blocked-by-queued-nonancestor', [(S, "            for dep in jobs.keys() & job.get('ancestry'):", "            for dep in (jobs.keys() - {job.tag}) if '__all__' in job.get('todo') else jobs.keys() & job.get('ancestry'):")]),
      ('C04', 5, 'pause-never-lifted-after-promotion-check', [(S, "    if not (promote() or dawgie.pl.schedule.is_paused()):", "    if not (promote() or dawgie.pl.schedule.is_paused() or len(que) > 3):")]),
]
M += [('C04', 6, 'request-keeps-one-target', [(S, "                    n.get('todo').update(targets)\n", "                    n.get('todo').update(sorted(targets)[:1])\n")])]
# ---- C05
M += [('C05', 1, 'purge-not-recursive', [(S, """    for child in node:
        purge(child, target, executing)
    return""", "    return")]),
      ('C05', 2, 'purge-all-targets-of-dependents', [(S, """    if target in node.get('todo', []):
        node.get('todo').remove(target)""", """    if target in node.get('todo', []):
        node.get('todo').clear()""")]),
      ('C05', 3, 'invalid-data-still-propagates', [(F, "            if state == dawgie.pl.schedule.State.success:", "            if state != dawgie.pl.schedule.State.failure:")]),
      ('C05', 4, 'invalid-recorded-as-failure', [(F, """        if state is None:
            return dawgie.pl.schedule.State.invalid""", """        if state is None:
            return dawgie.pl.schedule.State.failure""")]),
      ('C05', 5, 'purge-skips-own-children-when-not-pending', [(S, """    for child in node:
        purge(child, target, executing)""", """    for child in node if target in node.get('doing', []) or node in que else []:
        purge(child, target, executing)""")]),
]
# ---- C09
M += [('C09', 1, 'ancestry-one-level', [(D, """            while parents:
                grands = set()""", """            while parents and len(heritage) < 1:
                grands = set()""")]),
      ('C09', 2, 'feedback-becomes-ordering-edge', [(D, "                node.get('feedback').add(self._flat[fbn])\n", "                node.get('feedback').add(self._flat[fbn])\n                self._flat[fbn].add(node)\n")]),
      ('C09', 3, 'parents-skip-revisited-children', [(D, """            for child in children:
                child.get('parents').add(node)
            children = list(filter(lambda n, k=known: n.tag not in k, children))""", """            children = list(filter(lambda n, k=known: n.tag not in k, children))
            for child in children:
                child.get('parents').add(node)""")]),
      ('C09', 4, 'trim-merges-first-edge-only', [(D, """            for c in self:
                short_node.add(c.trim(known, length))""", """            for c in list(self)[:2]:
                short_node.add(c.trim(known, length))""")]),
      ('C09', 5, 'feedback-map-keyed-by-consumer', [(D, "                self._feedbacks[fbn] = node.tag", "                self._feedbacks[node.tag] = fbn")]),
]
# ---- C10
M += [('C10', 1, 'archive-always-returns-to-running', [(ST, "        getattr(self, self.__prior + '_trigger')()", "        self.running_trigger()")]),
      
      ('C10', 3, 'undocumented-edge-gitting-updating', [('Python/dawgie/pl/state.dot', """        updating -> loading[label=refresh,""", """        gitting -> updating[label=update,
                            trigger=update_trigger,
                            source=gitting,
                            dest=updating,
                            after=reload];
        updating -> loading[label=refresh,""")]),
      ('C10', 5, 'legacy-submit-step3-twice', [('Python/dawgie/fe/submit.py', "        d.addCallbacks(self.step_2, self.failure)\n", "        d.addCallbacks(self.step_2, self.failure)\n        d.addCallbacks(self.step_3, self.failure)\n")]),
      
]
M += [('C10', 7, 'load-done-skips-introspection', [(ST, """        def done(*_args, **_kwds):
            self.transitioning = Status.active
            self.contemplation_trigger()""", """        def done(*_args, **_kwds):
            self.transitioning = Status.active
            if not dawgie.pl.schedule.que:
                self.contemplation_trigger()""")]),
      ('C10', 8, 'archive-done-leaves-entering', [(ST, """        self.open_again = False
        self.transitioning = Status.active
        getattr(self, self.__prior + '_trigger')()""", """        self.open_again = False
        if self.__prior != 'updating':
            self.transitioning = Status.active
        getattr(self, self.__prior + '_trigger')()""")]),
      ('C10', 9, 'edge-archiving-updating-removed', [('Python/dawgie/pl/state.dot', """        archiving -> updating[label=done,
                              after=loading_trigger,
                              trigger=updating_trigger,
                              source=archiving,
                              dest=updating];""", "")]),
]
# ---- C11
M += [('C11', 1, 'revision-check-dropped', [(F, """        if msg.revision != dawgie.context.git_rev:
            dawgie.pl.message.send(self._abort, self)
            log.warning('Worker and pipeline revisions are not the same.')
            self.transport.loseConnection()
        else:""", """        if False:
            pass
        else:""")]),
      ('C11', 2, 'task-not-removed-from-queue', [(F, "        _workers.pop(0).do(_cluster.pop(0))", "        _workers.pop(0).do(_cluster[0])")]),
      
      ('C11', 4, 'run-id-always-fresh', [(F, "    runid = job.get('runid', None)\n", "    runid = None\n")]),
      ('C11', 5, 'workers-kept-at-load', [(F, "    keep = dawgie.context.fsm.is_pipeline_active()\n    cclist", "    keep = True\n    cclist")]),
      ('C11', 6, 'worker-kept-after-task', [(F, "        _workers.pop(0).do(_cluster.pop(0))", "        _workers[0].do(_cluster.pop(0)); _workers.append(_workers.pop(0))")]),
      ('C11', 7, 'regression-gets-run-id', [(F, """                for t in sorted(list(j.get('do'))):
                    _put(job=j, runid=0, target=t, where=where)""", """                for t in sorted(list(j.get('do'))):
                    _put(job=j, runid=runid, target=t, where=where)""")]),
      ('C11', 8, 'status-poll-ignores-lifecycle', [(F, """                msg.revision != dawgie.context.git_rev
                or not dawgie.context.fsm.is_pipeline_active()""", """                msg.revision != dawgie.context.git_rev""")]),
]
# ---- C12
T = 'Python/dawgie/tools/submit.py'
M += [('C12', 1, 'priority-lattice-crew-below-doing', [(T, """            if a == Priority.CREW and result != Priority.NOW:
                result = a""", """            if a == Priority.CREW and result not in (Priority.NOW, Priority.DOING):
                result = a""")]),
      ('C12', 2, 'doing-priority-waits-for-crew-only', [(ST, """            elif self.priority == dawgie.tools.submit.Priority.DOING:
                self.wait_for_doing()""", """            elif self.priority == dawgie.tools.submit.Priority.DOING:
                self.wait_for_crew()""")]),
      ('C12', 3, 'reset-keeps-priority', [(ST, """        self.wait_on_todo.set()
        self.priority = None
        self.transitioning = Status.active""", """        self.wait_on_todo.set()
        self.transitioning = Status.active""")]),
      ('C12', 4, 'waiter-handle-cleared-only-when-fired', [(ST, """            self.todo_thread = None
            if self.waiting_on_todo():
                if self.is_pipeline_active() and not dawgie.pl.schedule.que:
                    self.update_trigger()
                else:
                    self.wait_for_todo()""", """            if self.waiting_on_todo():
                if self.is_pipeline_active() and not dawgie.pl.schedule.que:
                    self.todo_thread = None
                    self.update_trigger()
                else:
                    self.todo_thread = None
                    self.wait_for_todo()""")]),
      ('C12', 5, 'crew-waiter-acts-without-recheck', [(ST, "                if self.is_pipeline_active() and not dawgie.pl.farm._busy:", "                if self.is_pipeline_active():")]),
      ('C12', 6, 'refused-submission-leaves-gitting', [('Python/dawgie/fe/submit.py', "            if self.__gitting and dawgie.context.fsm.state == 'gitting':", "            if dawgie.context.fsm.state == 'gitting':")]),
      ('C12', 8, 'todo-waiter-watches-doing-only', [(ST, """        while (
            dawgie.pl.schedule.que or not self.is_pipeline_active()
        ) and self.waiting_on_todo():""", """        while (
            dawgie.pl.schedule.view_doing() or not self.is_pipeline_active()
        ) and self.waiting_on_todo():"""), (ST, "                if self.is_pipeline_active() and not dawgie.pl.schedule.que:", "                if self.is_pipeline_active() and not dawgie.pl.schedule.view_doing():")]),
]
# ---- C15
M += [('C15', 1, 'diff-against-latest-persisted-only', [(S, "        if k not in prev or prev[k].count(curr[k]) == 0:", "        if k not in prev or prev[k][-1] != curr[k]:")]),
      ('C15', 2, 'only-algorithm-versions-consulted', [(S, "    ans = {'.'.join(item.split('.')[:2]) for item in dalg + dsv + dv}", "    ans = {'.'.join(item.split('.')[:2]) for item in dalg + dsv}")]),
      ('C15', 3, 'analysis-given-target-list', [(S, "                        ['__all__'] if _is_asp(n) else trglist", "                        trglist if trglist else ['__all__']")]),
      ('C15', 4, 'versions-compared-as-prefix', [(S, "        if k not in prev or prev[k].count(curr[k]) == 0:", "        if k not in prev or not any(p.startswith(curr[k][:3]) for p in prev[k]):")]),
      ('C15', 5, 'newer-ignores-bugfix', [('Python/dawgie/__init__.py', """                and than.impl == self.implementation()
                and than.bugfix < self.bugfix()""", """                and than.impl == self.implementation()
                and than.bugfix + 1 < self.bugfix()""")]),
      ('C15', 6, 'le-not-total', [('Python/dawgie/__init__.py', """            if self.implementation() == other.implementation():
                return self.bugfix() <= other.bugfix()
        return False

    def __lt__""", """            if self.implementation() == other.implementation():
                return self.bugfix() < other.bugfix()
        return False

    def __lt__""")]),
      ('C15', 7, 'state-vector-version-keyed-by-algorithm', [('Python/dawgie/pl/version.py', "                if sv.keys() and name not in tsv:\n                    tsv[name] = sv.asstring()", "                if sv.keys() and name not in tsv:\n                    tsv[name] = alg.asstring()")]),
]
# ---- C19
FE = 'Python/dawgie/fe/__init__.py'
SEC = 'Python/dawgie/security.py'
M += [('C19', 1, 'serve-last-candidate', [(FE, """    if found is not None:
        ffn = found
""", """    if ffn.is_file():
""")]),
      ('C19', 2, 'index-html-not-rechecked', [(FE, "            ffn = (ffn / 'index.html').resolve()\n        if not ffn.is_relative_to(d):", "            ffn = ffn / 'index.html'\n        if not ffn.parent.resolve().is_relative_to(d):")]),
      ('C19', 3, 'run-endpoint-made-public', [(SEC, "            # '/api/cmd/run',  # should require client cert (any)", "            '/api/cmd/run',")]),
      ('C19', 4, 'hook-error-grants-access', [(SEC, """            'Could not determine if endpoint is sanctioned. '
            'Defaulting to False.'
        )
    return False""", """            'Could not determine if endpoint is sanctioned. '
            'Defaulting to False.'
        )
    return is_sanctioned(endpoint, cert)""")]),
      ('C19', 5, 'containment-by-string-prefix', [(FE, "        if not ffn.is_relative_to(d):", "        if not str(ffn).startswith(str(d)):")]),
      ('C19', 6, 'legacy-snapshot-made-public', [(SEC, "            '/app/versions',\n", "            '/app/versions',\n            '/app/snapshot',\n")]),
      ('C19', 7, 'anonymous-allowed-on-command-endpoints', [(SEC, """        if cert is None:
            return False
        return True""", """        if cert is None:
            return endpoint.startswith('/api/cmd')
        return True""")]),
]
ok = 0
for prop, n, name, edits in M:
    ok += bool(make(prop, n, name, edits))
print(f'{ok}/{len(M)} mutants written')
