"""W-CAL: the calendar world.  Real code: dawgie.pl.schedule.complete / _delay /
view_events, dawgie.schedule (event validation), dawgie.pl.logger.chronicle
append / find / _load, dawgie.fe.api.schedule.succeeded / failed.  Everything
runs on the virtual clock of the simulator (sim.boot.SimDateTime), which this
world moves over 2023-01-01 .. 2028-12-31: forwards through the simulator's own
discrete-event time (the next operation is simply due later), and - as the only
fault kind of this world - in steps backwards/forwards through boot.clock_jump.

Two modes (cfg['mode']):

  'history' -> C18(b): a history of completions driven through the real
      schedule.complete at chooser-chosen instants, then queries through
      chronicle.find and the two front-end functions; oracle = brute force over
      what the harness appended (and the journal files re-read after every append).
  'delay'   -> C20(a): (event specification, clock instant) pairs; oracle = a small
      reference calendar (brute force over days) for schedule._delay, and
      "does not raise" for schedule.view_events.

For a fixed history / instant these are pure functions; what the simulator owns
is the clock (instants, steps), the history (order and instants of completions)
and the query instant.

chronicle.append is reachable only from schedule.complete, which is reachable
only from farm.Hand._res, i.e. from Hand.dataReceived on the reactor thread:
appends are never concurrent inside the pipeline process, so this world does
not interleave them from two threads.
"""

import calendar
import collections
import datetime as dt
import json
import os
import shutil

from sim import boot, core

UTC = dt.timezone.utc
T0 = dt.datetime(2023, 1, 1, tzinfo=UTC)
T1 = dt.datetime(2029, 1, 1, tzinfo=UTC)  # exclusive end of the simulated span
US = dt.timedelta(microseconds=1)
SEC = dt.timedelta(seconds=1)
DAY = dt.timedelta(days=1)
GRACE = dt.timedelta(seconds=300)  # defer() treats "ts <= 300" as due
LEAPS = [dt.datetime(2024, 2, 29, tzinfo=UTC), dt.datetime(2028, 2, 29, tzinfo=UTC)]

DEFAULT_CFG = dict(prop='C18', mode='history', faults=False, min_hist=5, max_hist=60, min_q=5, max_q=30,
                   min_pairs=20, max_pairs=200, reread_each=True, tz_offsets=False)


def midnight(t):
    return dt.datetime(t.year, t.month, t.day, tzinfo=UTC)


def month_start(t, k=0):
    """first midnight of the month k months after t's month"""
    m = t.year * 12 + (t.month - 1) + k
    return dt.datetime(m // 12, m % 12 + 1, 1, tzinfo=UTC)


def next_leap_day(t):
    for d in LEAPS:
        if d + 2 * DAY > t:
            return d
    return LEAPS[-1]


def fmt(t):
    return 'None' if t is None else t.isoformat(sep=' ')


# --------------------------------------------------------------------------
# reference calendar for C20(a): brute force over days, no arithmetic shared
# with schedule._delay
# --------------------------------------------------------------------------


class Spec:
    """what an event specification means: kind in boot/dow/dom/day, its value and time of day (UTC)"""

    def __init__(self, kind, value, tod):
        self.kind, self.value, self.tod = kind, value, tod

    def on(self, d):
        if self.kind == 'dow':
            return d.weekday() == self.value  # calendar.MONDAY == 0, as dawgie.MOMENT documents
        if self.kind == 'dom':
            return d.day == self.value
        if self.kind == 'day':
            return d == self.value
        return False

    def at(self, d):
        return dt.datetime(d.year, d.month, d.day, self.tod.hour, self.tod.minute, self.tod.second, tzinfo=UTC)

    def occurrences(self, lo, hi):
        """every true occurrence o with lo <= o <= hi, ascending"""
        if self.kind == 'day':
            o = self.at(self.value)
            return [o] if lo <= o <= hi else []
        out, d = [], lo.date() - DAY
        while d <= hi.date() + DAY:
            if self.on(d):
                o = self.at(d)
                if lo <= o <= hi:
                    out.append(o)
            d += DAY
        return out

    def bracket(self, now):
        """(last occurrence <= now, first occurrence > now); 70 days cover the longest gap (day 31: 62 days)"""
        occ = self.occurrences(now - 70 * DAY, now + 70 * DAY)
        prev = [o for o in occ if o <= now]
        nxt = [o for o in occ if o > now]
        return (prev[-1] if prev else None), (nxt[0] if nxt else None)

    def brief(self):
        v = self.value.isoformat() if self.kind == 'day' else self.value
        return f'{self.kind}={v}@{self.tod.isoformat() if self.tod else None}'


# --------------------------------------------------------------------------


class Driver:
    """the only actor: the next operation of the workload, due at a virtual instant"""

    def __init__(self):
        self.at, self.fn, self.label = None, None, ''

    def next_time(self, now):
        return self.at

    def enabled(self, now):
        if self.at is not None and self.at <= now + 1e-12:
            return [(self.label, self.fire)]
        return []

    def fire(self):
        fn, self.at, self.fn = self.fn, None, None
        fn()


class _Alg:
    """stands for the algorithm object of a node: complete() asks it for its version string"""

    def __init__(self, ver):
        self.ver = ver

    def asstring(self):
        return self.ver


class CalWorld:
    def __init__(self, ch, cfg):
        self.ch = ch
        self.cfg = dict(DEFAULT_CFG)
        self.cfg.update(cfg or {})
        self.sim = boot.setup()
        self.violations = []
        self.vcount = collections.Counter()
        self.probes = collections.Counter()
        self.ops = []
        self.dir = None
        self.driver = Driver()
        self.nontrivial = False

    # -- reporting ---------------------------------------------------------
    def violate(self, prop, rule, sig, msg):
        key = (prop, rule, sig)
        self.vcount[key] += 1
        if self.vcount[key] > 1:
            return
        self.violations.append(dict(property=prop, rule=rule, signature=sig, message=msg, step=self.sim.steps,
                                    t=round(self.sim.now, 3)))
        self.op(f'VIOLATION {prop}/{rule} {sig}: {msg}')

    def op(self, text):
        self.sim.log('op', text)  # the op log is part of the event-log digest
        if len(self.ops) < 400:
            self.ops.append(f'[{self.sim.steps}] {text[:600]}')

    # -- the clock ----------------------------------------------------------
    def now(self):
        return boot.now_dt()

    def goto(self, target, label):
        """advance the virtual clock to `target` (>= now) by letting the simulator
        run until the driver's next operation is due; returns the instant reached"""
        sim = self.sim
        gap = (target - self.now()).total_seconds()
        done = []
        self.driver.label = label
        self.driver.fn = lambda: done.append(1)
        self.driver.at = sim.now + max(0.0, gap)
        guard = 0
        while not done:
            guard += 1
            if guard > 8 or not sim.step():
                raise core.HarnessError(f'driver operation {label} never became due')
        got = self.now()
        if got != target and gap >= 0:
            # float seconds -> microsecond rounding: correct the residue exactly (never more than a few us)
            boot.clock_jump((target - got).total_seconds())
            got = self.now()
            if got != target:
                self.probes['clock_inexact'] += 1
        return got

    def jump(self, target):
        """fault: step the clock (NTP step / suspend-resume) to `target`"""
        cur = self.now()
        delta = (target - cur).total_seconds()
        boot.clock_jump(delta)
        got = self.now()
        if got != target:
            boot.clock_jump((target - got).total_seconds())
        kind = 'fault.clock_jump_back' if delta < 0 else 'fault.clock_jump_fwd'
        self.sim.count(kind)
        self.op(f'{kind} {fmt(cur)} -> {fmt(self.now())}')
        return self.now()

    def clamp(self, t):
        return min(max(t, T0), T1 - SEC)

    def tod(self, kind):
        """a time of day (h, m, s) from the chooser"""
        ch = self.ch
        return dt.timedelta(hours=ch.choose(kind + '.h', 24), minutes=ch.choose(kind + '.m', 60), seconds=ch.choose(kind + '.s', 60))

    SMALL = [dt.timedelta(0), -US, US, -SEC, SEC, -SEC / 2, SEC / 2, -61 * SEC, 61 * SEC]

    def start_instant(self):
        ch = self.ch
        anchors = [None, dt.datetime(2023, 12, 31, 23, 59, 50, tzinfo=UTC), dt.datetime(2024, 2, 28, 23, 59, 0, tzinfo=UTC),
                   dt.datetime(2024, 12, 31, 23, 58, 0, tzinfo=UTC), dt.datetime(2023, 1, 31, 23, 0, 0, tzinfo=UTC),
                   dt.datetime(2028, 2, 28, 12, 0, 0, tzinfo=UTC), dt.datetime(2027, 4, 30, 23, 59, 59, tzinfo=UTC)]
        a = anchors[ch.choose('clock.start', len(anchors))]
        if a is None:
            a = T0 + DAY * ch.choose('clock.start.day', 1500) + self.tod('clock.start')
        return self.clamp(a)

    def forward(self, prefix, cur, total):
        """next instant of a forward walk on the calendar; choice 0 is the boring one.  Year-scale steps are
        drawn about three times per run whatever its length (`total` operations), so that long histories do
        not pile up at the end of the simulated span."""
        ch = self.ch
        if ch.flip(prefix + '.far', 3, total + 3):
            k = ch.choose(prefix + '.farkind', 3)
            off = self.SMALL[ch.choose(prefix + '.off', len(self.SMALL))]
            if k == 0:
                t = midnight(cur) + DAY * (30 + ch.choose(prefix + '.far', 370)) + self.tod(prefix + '.fartod')
            elif k == 1:
                t = dt.datetime(cur.year + 1, 1, 1, tzinfo=UTC) + off
            else:
                t = next_leap_day(cur) + DAY * ch.choose(prefix + '.leapside', 2) + off
        else:
            k = ch.choose(prefix + '.gap', 8)
            if k == 0:
                t = cur + 61 * SEC
            elif k == 1:
                t = cur
            elif k == 2:
                t = cur + US
            elif k == 3:
                t = cur + dt.timedelta(hours=1 + ch.choose(prefix + '.hours', 23), minutes=ch.choose(prefix + '.min', 60))
            elif k == 4:
                t = midnight(cur) + DAY + self.SMALL[ch.choose(prefix + '.off', len(self.SMALL))]
            elif k == 5:
                t = month_start(cur, 1) + self.SMALL[ch.choose(prefix + '.off', len(self.SMALL))]
            elif k == 6:
                t = cur + DAY * (1 + ch.choose(prefix + '.days', 40))
            else:
                t = cur + SEC * (1 + ch.choose(prefix + '.secs', 600)) + US * ch.choose(prefix + '.us', 3)
        return self.bounded(t, cur)

    def bounded(self, t, cur):
        """the walk never goes backwards and never leaves the simulated span"""
        if t < cur:
            t = cur
        if t >= T1:
            t = cur + 61 * SEC
            if t >= T1:
                t = cur
        return t

    # -- world set-up ---------------------------------------------------------
    _n = [0]

    def setup_world(self):
        import dawgie.context as ctx
        import dawgie.pl.schedule as schedule

        self.sim.fresh(self.ch)
        boot.set_epoch(T0)
        boot._state['skew'] = 0.0
        # process-global state this world touches, as at import
        schedule.que = []
        schedule.per = []
        schedule.booted.clear()
        schedule.err.clear()
        schedule.suc.clear()
        schedule.pipeline_paused = False
        schedule.ae = None
        boot.LOGS.records.clear()
        CalWorld._n[0] += 1
        self.dir = f'/dev/shm/verif-cal-{os.getpid()}-{CalWorld._n[0] % 1000}'
        shutil.rmtree(self.dir, ignore_errors=True)
        os.makedirs(os.path.join(self.dir, 'dbs'))
        ctx.data_dbs = os.path.join(self.dir, 'dbs')
        ctx.git_rev = 'rev0'
        self.sim.actors.append(self.driver)

    # ======================================================================
    # C18(b)
    # ======================================================================

    def run_history(self):
        import dawgie.pl.dag as dag
        import dawgie.pl.schedule as schedule
        import dawgie.util.fifo as fifo
        from dawgie.pl.jobinfo import State

        ch, cfg = self.ch, self.cfg
        nj = 1 + ch.choose('h.njobs', 3)
        self.jobs = []
        for i in range(nj):
            tag = ['cal.alpha', 'cal.beta', 'kal.alpha'][i]
            self.jobs.append(dag.Node(tag, attrib={'todo': fifo.Unique(), 'doing': set(), 'do': set(), 'alg': _Alg(f'1.{i}.0'),
                                                   'status': State.running, 'level': i}))
        runids = [1, 2, 3, 17, 0]
        nrun = 1 + ch.choose('h.nrunids', len(runids))
        targets = ['T', 'U', '__all__']
        outcomes = [State.success, State.failure, State.success, State.failure, State.success, State.invalid]
        n = cfg['min_hist'] + ch.choose('h.n', cfg['max_hist'] - cfg['min_hist'] + 1)
        self.recs = []  # ground truth: what the harness asked schedule.complete to record
        cur = self.goto(self.start_instant(), 'start')
        self.op(f'history of {n} completions, clock starts at {fmt(cur)}')
        for k in range(n):
            target_t = self.forward('h', cur, n)
            cur = self.goto(target_t, 'complete')
            if cfg['faults'] and ch.flip('h.jump', 1, 5):
                cur = self.jump(self.jump_target('h', cur))
            job = self.jobs[ch.choose('h.job', nj)]
            runid = runids[ch.choose('h.runid', nrun)]
            target = targets[ch.choose('h.target', len(targets))]
            status = outcomes[ch.choose('h.outcome', len(outcomes))]
            # what a release did before: the unit is executing and its node is queued
            job.get('doing').add(target)
            if job not in schedule.que:
                schedule.que.append(job)
            timing = {'started': 'sim', 'seq': k}
            rec = dict(seq=k, t=cur, status=status.name, runid=runid, target=target, task=job.tag)
            self.op(f'complete #{k} {job.tag}[{target}] run={runid} {status.name} at {fmt(cur)}')
            try:
                schedule.complete(job, runid, target, timing, status)
            except Exception as e:  # noqa
                self.violate('C18', 'complete_raised', type(e).__name__, f'schedule.complete raised {e!r} for {rec}')
                continue
            self.recs.append(rec)
            self.note_entry(rec)
            if cfg['reread_each'] and (k < 8 or k % 8 == 7):
                # every journal file is read back after each of the first appends and after every eighth later on
                # (and after the last one, below): a loss is permanent, so this only localises it earlier
                self.check_journal(f'after append #{k}')
        self.check_journal('after the history')
        # queries
        nq = cfg['min_q'] + ch.choose('q.n', cfg['max_q'] - cfg['min_q'] + 1)
        for _ in range(nq):
            cur = self.goto(self.forward('q', cur, nq), 'query')
            if cfg['faults'] and ch.flip('q.jump', 1, 6):
                cur = self.jump(self.jump_target('q', cur))
            self.one_query(cur)
        self.check_journal('after the queries')
        days = {r['t'].date() for r in self.recs}
        self.nontrivial = len(self.recs) >= 5 and len(days) >= 2 and self.probes['query_nonempty_window'] > 0

    def jump_target(self, prefix, cur):
        ch = self.ch
        k = ch.choose(prefix + '.jumpkind', 6)
        if k == 0:
            t = cur - SEC * (1 + ch.choose(prefix + '.jump.s', 3600))
        elif k == 1:
            t = cur - DAY * (1 + ch.choose(prefix + '.jump.d', 3)) + self.tod(prefix + '.jump') - dt.timedelta(hours=12)
        elif k == 2:
            t = cur - DAY * (20 + ch.choose(prefix + '.jump.far', 400))
        elif k == 3 and getattr(self, 'recs', None):
            t = self.recs[ch.choose(prefix + '.jump.entry', len(self.recs))]['t']  # the very instant of an earlier entry
        elif k == 4:
            t = cur + DAY * (1 + ch.choose(prefix + '.jump.fd', 40)) + self.tod(prefix + '.jump') - dt.timedelta(hours=12)
        else:
            t = T0 + DAY * ch.choose(prefix + '.jump.any', 2190) + self.tod(prefix + '.jump')
        return self.clamp(t)

    def note_entry(self, rec):
        t, P = rec['t'], self.probes
        secs = (t - midnight(t)).total_seconds()
        if secs < 120 or secs > 86400 - 120:
            P['entry_near_midnight'] += 1
        if (t.month, t.day) == (2, 29):
            P['entry_on_leap_day'] += 1
        last = calendar.monthrange(t.year, t.month)[1]
        if (t.day == last and secs > 86400 - 3600) or (t.day == 1 and secs < 3600):
            P['entry_at_month_end'] += 1
            if t.month in (12, 1):
                P['entry_at_year_end'] += 1
        for r in self.recs[:-1]:
            if r['t'] == t:
                P['entries_same_instant'] += 1
                break
        same_file = [r for r in self.recs if r['runid'] == rec['runid'] and r['t'].date() == t.date()]
        if len(same_file) > 1:
            P['several_per_runid_and_day'] += 1
        if len({r['runid'] for r in self.recs if r['t'].date() == t.date()}) > 1:
            P['several_runids_per_day'] += 1
        if len(self.recs) > 1 and t < self.recs[-2]['t']:
            P['appended_out_of_time_order'] += 1

    def check_journal(self, when):
        """the "never lost" clause: the multiset of entries in all journal files equals the multiset appended"""
        disk = []
        root = os.path.join(self.dir, 'dbs', 'chronicles')
        for dp, dn, fn in os.walk(root):
            dn.sort()
            for f in sorted(fn):
                try:
                    with open(os.path.join(dp, f), 'rt', encoding='utf-8') as fh:
                        disk.extend(json.load(fh))
                except Exception as e:  # noqa
                    # (path relative to the journal root: the run directory carries the pid, which must not reach the digest)
                    self.violate('C18', 'journal_unreadable', type(e).__name__, f'{when}: {os.path.relpath(os.path.join(dp, f), root)}: {e!r}')
                    return
        got = collections.Counter()
        for e in disk:
            try:
                key = (int(e['timing']['seq']), e['status'], e['runid'], e['target'], e['task'],
                       dt.datetime.fromisoformat(e['timing']['completed']))
            except Exception:  # noqa
                key = ('malformed', json.dumps(e, sort_keys=True, default=str)[:200])
            got[key] += 1
        want = collections.Counter((r['seq'], r['status'], r['runid'], r['target'], r['task'], r['t']) for r in self.recs)
        if got != want:
            lost = sorted((want - got).elements(), key=str)
            extra = sorted((got - want).elements(), key=str)
            sig = 'lost' if lost and not extra else ('extra' if extra and not lost else 'lost_and_extra')
            if lost and extra and len(lost) == len(extra) and [x[0] for x in lost] == [x[0] for x in extra]:
                sig = 'altered'
            self.violate('C18', 'journal_differs_from_appended', sig,
                         f'{when}: appended {sum(want.values())} entries, journal holds {sum(got.values())}; '
                         f'lost={[(x[0], x[1], fmt(x[5])) for x in lost[:4]]} extra={[str(x)[:120] for x in extra[:4]]}')

    # -- queries -------------------------------------------------------------
    def pick_bound(self, kind, now):
        ch, recs = self.ch, self.recs
        k = ch.choose(kind + '.kind', 7)
        if not recs and k in (0, 1, 2):
            k = 5
        if k == 0:
            t = recs[ch.choose(kind + '.entry', len(recs))]['t'] + self.SMALL[ch.choose(kind + '.off', 5)]
            self.probes['query_bound_at_entry_instant'] += 1
        elif k == 1:
            t = midnight(recs[ch.choose(kind + '.entry', len(recs))]['t']) + DAY * ch.choose(kind + '.nextday', 2) \
                + self.SMALL[ch.choose(kind + '.off', 3)]
            self.probes['query_bound_at_midnight'] += 1
        elif k == 2:
            t = midnight(recs[ch.choose(kind + '.entry', len(recs))]['t']) + DAY * (ch.choose(kind + '.dayoff', 7) - 3) + self.tod(kind)
            self.probes['query_bound_arbitrary_time_of_day'] += 1
        elif k == 3:
            t = [dt.datetime(1999, 12, 31, 23, 59, 59, tzinfo=UTC), dt.datetime(1975, 6, 1, 12, 0, 0, tzinfo=UTC)][ch.choose(kind + '.past', 2)]
            self.probes['query_bound_far_past'] += 1
        elif k == 4:
            t = [dt.datetime(2031, 3, 5, 17, 0, 0, tzinfo=UTC), dt.datetime(2100, 1, 1, tzinfo=UTC)][ch.choose(kind + '.future', 2)]
            self.probes['query_bound_far_future'] += 1
        elif k == 5:
            t = now + self.SMALL[ch.choose(kind + '.off', 5)]
        else:
            t = T0 + DAY * ch.choose(kind + '.anyday', 2192) + self.tod(kind)
        return t

    SHAPES = ['both', 'before', 'before+limit', 'limit', 'after+limit', 'after', 'both+limit', 'none']

    def one_query(self, now):
        import dawgie.fe.api.schedule as api
        import dawgie.pl.logger.chronicle as chronicle

        ch = self.ch
        bag = ['both', 'before', 'before+limit', 'limit', 'after+limit', 'after', 'both+limit', 'both', 'before+limit', 'limit', 'none']
        shape = bag[ch.choose('q.shape', len(bag))]
        after = before = limit = None
        if shape in ('both', 'both+limit', 'after', 'after+limit'):
            after = self.pick_bound('q.after', now)
        if shape in ('both', 'both+limit', 'before', 'before+limit'):
            before = self.pick_bound('q.before', now)
            if after is not None and ch.flip('q.samebound', 1, 12):
                before = after
        if 'limit' in shape:
            limit = 1 + ch.choose('q.limit', len(self.recs) + 2)
        succeeded = not ch.flip('q.failed', 1, 2)
        via = 'endpoint' if ch.flip('q.endpoint', 1, 3) else 'find'
        if after is not None and before is not None and after >= before:
            self.probes['query_after_ge_before'] += 1
        self.probes['query_' + shape.replace('+', '_')] += 1
        self.probes['query_via_' + via] += 1
        q = dict(after=after, before=before, limit=limit, succeeded=succeeded, via=via, shape=shape, now=now)
        self.op(f'query via={via} after={fmt(after)} before={fmt(before)} limit={limit} succeeded={succeeded} at {fmt(now)}')
        result = exc = None
        a, b = after, before
        if self.cfg['tz_offsets']:
            # the same instants, written with another UTC offset
            a, b = self.in_zone(a, 'q.after'), self.in_zone(b, 'q.before')
            q['offset'] = any(x is not None and x.utcoffset() for x in (a, b))
            if q['offset']:
                self.op(f'      bounds as passed: after={fmt(a)} before={fmt(b)}')
        try:
            if via == 'find':
                result = chronicle.find(after=a, before=b, limit=limit, succeeded=succeeded)
            else:
                # what DynamicContent hands over: one list of str per query argument that is present
                kw = {}
                style = ch.choose('q.isostyle', 3)
                for name, v in (('after', a), ('before', b)):
                    if v is not None:
                        s = v.isoformat() if style != 1 else v.isoformat(sep=' ')
                        if style == 2 and s.endswith('+00:00'):
                            s = s[:-6] + 'Z'
                        kw[name] = [s]
                if limit is not None:
                    kw['limit'] = [str(limit)]
                raw = (api.succeeded if succeeded else api.failed)(**kw)
                doc = json.loads(raw.decode())
                if doc.get('status') != 'success' or not isinstance(doc.get('content'), list):
                    raise RuntimeError(f'endpoint answered {str(doc)[:200]}')
                result = doc['content']
        except Exception as e:  # noqa
            exc = e
        self.judge_query(q, result, exc)

    def in_zone(self, t, kind):
        """the same instant written with another UTC offset"""
        if t is None:
            return None
        offs = [0, 330, -300, 840, -720, 60]
        m = offs[self.ch.choose(kind + '.zone', len(offs))]
        if m:
            self.probes['query_bound_with_utc_offset'] += 1
        return t.astimezone(dt.timezone(dt.timedelta(minutes=m)))

    def judge_query(self, q, result, exc):
        """C18 sentence 2.  Deliberate leniencies:
        * find(None, None, None) may raise ValueError (documented).
        * no upper bound requested: the code takes the query instant as upper bound; the statement does not
          say whether entries completed at/after the query instant (possible only after a backward clock
          step) belong to an unbounded window, so BOTH readings are accepted (upper bound = now, or none).
        * only `after` + `limit`: the statement does not say WHICH entries survive the truncation; only
          soundness is demanded (right outcome, inside the window, no duplicate, at most `limit`, newest first).
        * entries completed at the same instant may come in any relative order, and when a truncation cuts
          through such a group any of its members may be the ones returned.
        * with both bounds the limit is ignored by documentation (rule 4) and the statement truncates only
          "when only an upper bound or only a limit is given": exactly the window is demanded.
        """
        after, before, limit, via, shape, now = q['after'], q['before'], q['limit'], q['via'], q['shape'], q['now']
        # signatures: the discriminating fact first (replay files are named after the first 40 characters)
        tag = f'via={via}' + (',utc_offset' if q.get('offset') else '')
        if exc is not None:
            if isinstance(exc, ValueError) and after is None and before is None and limit is None:
                self.probes['query_all_none_valueerror'] += 1
                return
            self.violate('C18', 'query_raised', f'{tag},shape={shape},exc={type(exc).__name__}', f'{self.qtext(q)} raised {exc!r}')
            return
        status = 'success' if q['succeeded'] else 'failure'
        byseq = {r['seq']: r for r in self.recs}
        got = []
        for e in result:
            try:
                r = byseq[int(e['timing']['seq'])]
                same = (e['status'], e['runid'], e['target'], e['task'], dt.datetime.fromisoformat(e['timing']['completed'])) == \
                    (r['status'], r['runid'], r['target'], r['task'], r['t'])
            except Exception:  # noqa
                r, same = None, False
            if r is None or not same:
                self.violate('C18', 'unknown_entry_returned', tag, f'{self.qtext(q)} returned an entry that was never appended: {str(e)[:200]}')
                return
            got.append(r)
        seqs = [r['seq'] for r in got]
        if len(set(seqs)) != len(seqs):
            self.violate('C18', 'duplicate_returned', tag, f'{self.qtext(q)} returned entries twice: {seqs}')
            return
        bad = [r for r in got if r['status'] != status]
        if bad:
            self.violate('C18', 'wrong_outcome_returned', f'got={bad[0]["status"]},{tag}',
                         f'{self.qtext(q)} returned #{bad[0]["seq"]} with outcome {bad[0]["status"]}')
            return
        for r in got:
            why = None
            if after is not None and not after < r['t']:
                why = 'on_after_bound' if r['t'] == after else 'older_than_after'
            elif before is not None and not r['t'] < before:
                why = 'on_before_bound' if r['t'] == before else 'newer_than_before'
            if why:
                self.violate('C18', 'outside_window', f'{why},{tag}',
                             f'{self.qtext(q)} returned #{r["seq"]} completed {fmt(r["t"])}, not strictly inside the window')
                return
        times = [r['t'] for r in got]
        if any(times[i] < times[i + 1] for i in range(len(times) - 1)):
            self.violate('C18', 'not_newest_first', tag, f'{self.qtext(q)} returned completion times {[fmt(t) for t in times[:6]]}')
            return
        truncating = limit is not None and not (after is not None and before is not None)
        if truncating and len(got) > limit:
            self.violate('C18', 'more_than_limit', tag, f'{self.qtext(q)} returned {len(got)} entries')
            return
        # completeness against the brute-force window(s)
        uppers = [before] if before is not None else [now, None]
        verdict = None
        for hi in uppers:
            W = [r for r in self.recs if r['status'] == status and (after is None or after < r['t']) and (hi is None or r['t'] < hi)]
            if hi is uppers[0]:
                W0 = W
            inW = {r['seq'] for r in W}
            if not set(seqs) <= inW:
                continue
            if shape == 'after+limit':
                verdict = 'ok'  # soundness only, see leniencies
            elif after is not None and before is not None or limit is None:
                verdict = 'ok' if set(seqs) == inW else verdict
            else:
                wt = sorted((r['t'] for r in W), reverse=True)[:limit]
                verdict = 'ok' if times == wt else verdict
            if verdict == 'ok':
                break
        if W0:
            self.probes['query_nonempty_window'] += 1
            if len({r['t'].date() for r in W0}) > 1:
                self.probes['query_window_spans_days'] += 1
            if truncating and limit < len(W0):
                self.probes['query_truncated'] += 1
        if verdict == 'ok':
            return
        missing = sorted((r for r in W0 if r['seq'] not in set(seqs)), key=lambda r: r['t'], reverse=True)
        hi0 = uppers[0]
        cls = 'none'
        if missing:
            m, h = missing[0]['t'], hi0.astimezone(UTC)
            if m.date() == h.date():
                cls = 'upper_day'
            elif m.timetz() >= h.timetz():
                cls = 'earlier_day_later_tod'
            else:
                cls = 'earlier_day_other'
        exact = (after is not None and before is not None) or limit is None
        rule = 'window_incomplete' if exact else 'not_the_newest'
        self.violate('C18', rule, f'missing={cls},{tag}',
                     f'{self.qtext(q)} returned {[(r["seq"], fmt(r["t"])) for r in got[:5]]} ({len(got)} entries); the window holds {len(W0)}; '
                     f'newest missing: {[(r["seq"], fmt(r["t"])) for r in missing[:4]]}')

    def qtext(self, q):
        fn = 'chronicle.find' if q['via'] == 'find' else ('fe.api.schedule.' + ('succeeded' if q['succeeded'] else 'failed'))
        return (f'{fn}(after={fmt(q["after"])}, before={fmt(q["before"])}, limit={q["limit"]}'
                + (f', succeeded={q["succeeded"]})' if q['via'] == 'find' else ')') + f' at {fmt(q["now"])}')

    # ======================================================================
    # C20(a)
    # ======================================================================

    DOMS = [1, 15, 20, 28, 29, 30, 31, 31, 30, 29, 2, 10, 27]
    OFFS = [dt.timedelta(0), -SEC, SEC, -GRACE, -GRACE - SEC, -GRACE + SEC, GRACE, GRACE + SEC, GRACE - SEC, -US, US,
            GRACE + US, -GRACE - US, -60 * SEC, 59 * SEC, dt.timedelta(hours=1), dt.timedelta(hours=11), -dt.timedelta(hours=1),
            dt.timedelta(hours=23, minutes=59)]

    def make_events(self, start):
        import dawgie
        import dawgie.pl.dag as dag
        import dawgie.pl.schedule as schedule

        ch = self.ch
        ne = 1 + ch.choose('e.n', 5)
        tods = [dt.time(12, 0, 0), dt.time(0, 0, 0), dt.time(23, 59, 59), dt.time(0, 5, 0), dt.time(0, 4, 59), dt.time(23, 55, 0), None]
        self.events = []  # (EVENT, Spec)

        def factory_task(*_a, **_k):  # only its identity matters to _delay
            return None

        nodes = [dag.Node(f'cal.timer{i}', attrib={'period': []}) for i in range(1 + ch.choose('e.nnodes', 2))]
        for i in range(ne):
            kind = ['dow', 'dom', 'day', 'boot', 'dom', 'dow'][ch.choose('e.kind', 6)]
            tod = tods[ch.choose('e.tod', len(tods))]
            if tod is None:
                tod = dt.time(ch.choose('e.tod.h', 24), ch.choose('e.tod.m', 60), ch.choose('e.tod.s', 60))
            if ch.flip('e.tzutc', 1, 3):
                tod = tod.replace(tzinfo=UTC)  # MOMENT documents: UTC is assumed when the time carries no zone
            impl = _Alg(f'e{i}')
            kw = {}
            if kind == 'dow':
                value = ch.choose('e.dow', 7)
                kw = dict(dow=value, time=tod)
            elif kind == 'dom':
                value = self.DOMS[ch.choose('e.dom', len(self.DOMS))]
                if ch.flip('e.domany', 1, 4):
                    value = 1 + ch.choose('e.domv', 31)
                kw = dict(dom=value, time=tod)
            elif kind == 'day':
                k = ch.choose('e.daykind', 6)
                base = start.date()
                if k == 0:
                    value = base + DAY * (1 + ch.choose('e.day.ahead', 400))
                elif k == 1:
                    value = base
                elif k == 2:
                    value = base - DAY * (1 + ch.choose('e.day.back', 400))
                elif k == 3:
                    value = dt.date(2024, 2, 29)
                elif k == 4:
                    value = dt.date(2025 + ch.choose('e.day.y31', 3), 12, 31)
                else:
                    value = dt.date(2024 + ch.choose('e.day.y1', 4), 1, 1)
                kw = dict(day=value, time=tod)
            else:
                value = True
                kw = dict(boot=True)
                if ch.flip('e.boottime', 1, 2):
                    kw['time'] = tod
            ev = dawgie.schedule(factory_task, impl, **kw)  # the real validation of the specification
            spec = Spec(kind, value, tod if kind != 'boot' else None)
            self.events.append((ev, spec))
            node = nodes[ch.choose('e.node', len(nodes))]
            node.get('period').append(ev)
            schedule.per.append(node)  # periodics() appends the node once per event
            self.op(f'event e{i}: {spec.brief()} on {node.tag}')
        self.consumed = set()  # boot events whose first _delay call happened
        self.registered = set(range(ne))

    def delay_instant(self, cur, spec, left):
        """next instant of the forward walk, biased to the event's own occurrences and to calendar edges.
        A step larger than eight times the fair share of the remaining span (`left` pairs to go) is replaced
        by the boring one, so that long runs cross all six years instead of exhausting them early."""
        ch = self.ch
        k = ch.choose('d.gap', 10)
        off = self.OFFS[ch.choose('d.off', len(self.OFFS))] if k in (1, 3, 4, 5, 9) else dt.timedelta(0)
        todd = dt.timedelta(0)
        if spec.tod is not None:
            todd = dt.timedelta(hours=spec.tod.hour, minutes=spec.tod.minute, seconds=spec.tod.second)
        t = None
        if k in (1, 9) and spec.kind != 'boot':
            _prev, nxt = spec.bracket(cur)
            if nxt is not None:
                t = nxt + off
        elif k == 2:
            t = midnight(cur) + DAY + self.SMALL[ch.choose('d.small', len(self.SMALL))]
        elif k == 3:
            # the last day of this month (or of the next, if that is already past) at the event's time of day
            for j in (1, 2):
                t = month_start(cur, j) - DAY + todd + off
                if t >= cur:
                    break
        elif k == 4:
            ld = next_leap_day(cur)
            t = ld + DAY * (ch.choose('d.leapside', 3) - 1) + todd + off
        elif k == 5:
            t = dt.datetime(cur.year, 12, 31, tzinfo=UTC) + DAY * ch.choose('d.yearside', 2) + todd + off
        elif k == 6:
            t = midnight(cur) + DAY * (1 + ch.choose('d.days', 45)) + self.tod('d.tod')
        elif k == 7:
            t = cur + dt.timedelta(seconds=ch.choose('d.secs', 7200))
        elif k == 8:
            t = month_start(cur, 1) + self.SMALL[ch.choose('d.small', len(self.SMALL))]
        boring = cur + dt.timedelta(hours=1, minutes=1, seconds=1)
        if t is None or t - cur > 5 * (T1 - cur) / (left + 1) or t >= T1:
            t = boring
        if t < cur:
            t = cur
        return t

    def note_instant(self, t, spec):
        P = self.probes
        secs = (t - midnight(t)).total_seconds()
        if secs <= 60 or secs >= 86400 - 60:
            P['instant_near_midnight'] += 1
        if (t.month, t.day) == (2, 29):
            P['instant_on_feb_29'] += 1
        last = calendar.monthrange(t.year, t.month)[1]
        if t.day == last:
            P[f'instant_on_month_end_{last}'] += 1
        if (t.month, t.day) in ((12, 31), (1, 1)) and (secs <= 600 or secs >= 86400 - 600):
            P['instant_at_year_end'] += 1
        if spec.kind in ('dow', 'dom', 'day'):
            if spec.occurrences(t - GRACE - 2 * SEC, t + GRACE + 2 * SEC):
                P['instant_within_grace_of_event'] += 1
            if spec.occurrences(t - 61 * SEC, t + 61 * SEC):
                P['instant_in_minute_around_event'] += 1
        if spec.kind == 'dom':
            nm = month_start(t, 1)
            if spec.value > calendar.monthrange(nm.year, nm.month)[1]:
                P['dom_exceeds_length_of_next_month'] += 1
            if spec.value > last:
                P['dom_exceeds_length_of_this_month'] += 1
        if spec.kind == 'dow' and t.weekday() == spec.value and t > spec.at(t.date()) + GRACE:
            P['dow_same_weekday_after_time'] += 1

    def run_delay(self):
        import dawgie.pl.schedule as schedule

        ch, cfg = self.ch, self.cfg
        cur = self.goto(self.start_instant(), 'start')
        self.make_events(cur)
        n = cfg['min_pairs'] + ch.choose('d.n', cfg['max_pairs'] - cfg['min_pairs'] + 1)
        self.op(f'{n} (event, instant) pairs, clock starts at {fmt(cur)}')
        evaluated = nonboot = 0
        for done in range(n):
            i = ch.choose('d.event', len(self.events))
            ev, spec = self.events[i]
            t = self.delay_instant(cur, spec, n - done)
            if t >= T1:
                self.probes['end_of_span_reached'] += 1
                break
            cur = self.goto(t, 'instant')
            if cfg['faults'] and ch.flip('d.jump', 1, 5):
                cur = self.jump(self.jump_target('d', cur))
            self.note_instant(cur, spec)
            if ch.flip('d.view', 1, 6):
                self.probes['view_events_called'] += 1
                try:
                    v = schedule.view_events()
                    self.op(f'view_events at {fmt(cur)} -> {str(v)[:160]}')
                except Exception as e:  # noqa
                    self.violate('C20', 'view_events_raises', f'exc={type(e).__name__},{self.raise_case(e, cur)}',
                                 f'schedule.view_events() at {fmt(cur)} raised {e!r}; events: {[s.brief() for _e, s in self.events]}')
                # view_events evaluates every registered event, boot events included
                self.consumed |= {j for j, (_e, s) in enumerate(self.events) if s.kind == 'boot'}
                continue
            evaluated += 1
            nonboot += spec.kind != 'boot'
            self.one_delay(i, ev, spec, cur)
        self.nontrivial = evaluated >= 15 and nonboot >= 1 and self.probes['instant_within_grace_of_event'] > 0

    def raise_case(self, exc, now, spec=None):
        """discriminating fact of a raising _delay, for the signature"""
        if isinstance(exc, ValueError):
            nm = month_start(now, 1)
            ln = calendar.monthrange(nm.year, nm.month)[1]
            doms = [spec.value] if spec is not None and spec.kind == 'dom' else \
                [s.value for _e, s in self.events if s.kind == 'dom'] if spec is None else []
            if any(d > ln for d in doms):
                return 'case=dom_exceeds_length_of_next_month'
        return 'case=other'

    def one_delay(self, i, ev, spec, now):
        """C20 sentence 1.  Deliberate leniencies:
        * a moment up to 300 s in the past is accepted: defer() treats "delay <= 300 s" as due, so an occurrence
          that passed less than 300 s ago is still "the event" for the code that consumes _delay.
        * "no further than one period ahead": the period is the distance between the two true occurrences that
          bracket `now` (7 days for a weekday; 28..31 days for a day of month that every month has; up to 62 days
          for day 29/30/31, whose true occurrences skip the shorter months).  A later occurrence than the nearest
          one is therefore accepted as long as it lies inside that distance (counted in a probe).
        * a `day` (calendar date) specification has one occurrence only: after it has passed no upcoming moment
          exists, so for a date in the past only "does not raise" and "matches the date and time" are demanded
          (what the scheduler then does with the negative delay is sentence 2's business, decided in W-PIPE).
        * boot: the first evaluation in the process must return and be due (|delay| <= 300 s); every later one may
          raise the documented _DelayNotKnowableError (or return anything).
        * the time of day is compared at whole seconds (specifications are generated without microseconds) and
          is read as UTC both for naive times and for times carrying tzinfo=UTC (other zones are not generated).
        """
        import dawgie.pl.schedule as schedule

        tag = f'kind={spec.kind}'
        try:
            d = schedule._delay(ev)
        except schedule._DelayNotKnowableError as e:
            if spec.kind == 'boot' and i in self.consumed:
                self.probes['boot_later_call_not_knowable'] += 1
                self.op(f'_delay(e{i} {spec.brief()}) at {fmt(now)} -> not knowable (boot already evaluated)')
                return
            self.violate('C20', 'delay_raises', f'{tag},exc={type(e).__name__},case=first_evaluation',
                         f'_delay({spec.brief()}) at {fmt(now)} raised {e!r}')
            return
        except Exception as e:  # noqa
            self.violate('C20', 'delay_raises', f'{tag},exc={type(e).__name__},{self.raise_case(e, now, spec)}',
                         f'_delay({spec.brief()}) at {fmt(now)} raised {e!r}')
            return
        self.op(f'_delay(e{i} {spec.brief()}) at {fmt(now)} -> {d}')
        if not isinstance(d, dt.timedelta):
            self.violate('C20', 'delay_not_a_duration', tag, f'_delay({spec.brief()}) returned {d!r}')
            return
        if spec.kind == 'boot':
            if i not in self.consumed:
                self.consumed.add(i)
                self.probes['boot_first_call'] += 1
                if abs(d) > GRACE:
                    self.violate('C20', 'boot_not_due', tag, f'first _delay of a boot event at {fmt(now)} returned {d}')
            return
        moment = now + d
        # (1) the moment matches the specification
        field = None
        if (moment.hour, moment.minute, moment.second, moment.microsecond) != (spec.tod.hour, spec.tod.minute, spec.tod.second, 0):
            field = 'time_of_day'
        elif spec.kind == 'dow' and moment.weekday() != spec.value:
            field = 'weekday'
        elif spec.kind == 'dom' and moment.day != spec.value:
            field = 'day_of_month'
        elif spec.kind == 'day' and moment.date() != spec.value:
            field = 'date'
        if field:
            self.violate('C20', 'moment_does_not_match', f'{tag},field={field}',
                         f'_delay({spec.brief()}) at {fmt(now)} = {d} designates {fmt(moment)} ({moment.strftime("%A")})')
            return
        if spec.kind == 'day':
            if moment < now - GRACE:
                self.probes['date_in_past_negative_delay'] += 1
            return
        # (2) not in the past (beyond the firing window), (3) no further than one period ahead
        prev, nxt = spec.bracket(now)
        if moment < now - GRACE:
            case = 'other'
            if spec.kind == 'dow' and now.weekday() == spec.value and moment.date() == now.date():
                case = 'same_weekday_after_time_of_day'
            self.violate('C20', 'moment_in_the_past', f'{tag},case={case}',
                         f'_delay({spec.brief()}) at {fmt(now)} ({now.strftime("%A")}) = {d}: designates {fmt(moment)}, '
                         f'{now - moment} ago; next true occurrence is {fmt(nxt)}')
            return
        period = nxt - prev
        if moment > now + period:
            case = 'other'
            if spec.kind == 'dom':
                first = spec.occurrences(now - GRACE, now + 70 * DAY)[0]
                if (first.year, first.month) == (now.year, now.month) or first <= now:
                    case = 'occurrence_of_this_month_skipped'
                elif (moment.year, moment.month) != (first.year, first.month):
                    case = 'later_occurrence_than_next'
            self.violate('C20', 'moment_too_far_ahead', f'{tag},case={case}',
                         f'_delay({spec.brief()}) at {fmt(now)} = {d}: designates {fmt(moment)}; the occurrences around now are '
                         f'{fmt(prev)} and {fmt(nxt)} (period {period}), so the moment lies more than one period ahead')
            return
        allowed = spec.occurrences(now - GRACE, now + period)
        if moment not in allowed:
            self.violate('C20', 'moment_does_not_match', f'{tag},field=not_an_occurrence',
                         f'_delay({spec.brief()}) at {fmt(now)} = {d} designates {fmt(moment)}; occurrences: {[fmt(o) for o in allowed]}')
            return
        if moment != allowed[0]:
            self.probes['later_than_nearest_but_within_period'] += 1
        if moment < now:
            self.probes['moment_within_grace_in_past'] += 1

    # ======================================================================

    def run(self):
        try:
            self.setup_world()
            if self.cfg['mode'] == 'history':
                self.run_history()
            else:
                self.run_delay()
        finally:
            if self.dir:
                shutil.rmtree(self.dir, ignore_errors=True)
        sim = self.sim
        return dict(violations=self.violations, probes=dict(self.probes),
                    faults={k: v for k, v in sim.counts.items() if k.startswith('fault.')},
                    steps=sim.steps, vtime=round(sim.now, 3), digest=sim.digest(), nontrivial=bool(self.nontrivial),
                    kinds=dict(sim.kinds), sample=self.ops[:60], ops=self.ops)


def warmup():
    """executed once in the run server before forking"""
    boot.setup()
    import dawgie.fe.api.schedule  # noqa
    import dawgie.pl.dag  # noqa
    import dawgie.pl.logger.chronicle  # noqa
    import dawgie.pl.schedule  # noqa

    return True


def run(ch, cfg):
    return CalWorld(ch, cfg).run()
