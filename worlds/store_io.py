"""File-system and process-crash seam of W-STORE (DESIGN.md section 2.6).

Thin wrappers bound into the *module namespaces* of the code under crash test -- `dawgie.db.util`
(its `os`, `open`, `shutil`, `tempfile`, `subprocess` names), `dbm.dumb` (`_io`, and the `_io`/`_os`
class attributes of `_Database`) and `comms.Worker._send` -- number every I/O step.  Nothing is
modelled: every step is then executed by the real function on real files.

  * crash: at step k `on_crash(side, label)` is called BEFORE the step executes; side 'W' = the
    step belongs to the client (worker) process, 'P' = to the pipeline process.
  * disk full: a write-like step raises OSError(ENOSPC) instead of executing.
  * EXDEV: `os.rename` inside a private clone of `shutil` (same code objects, own globals) raises
    OSError(EXDEV) when staging and store are declared to be on different devices, so that the real
    `shutil.move` takes its real copy-then-unlink path; the clone's `open` / `os.sendfile` /
    `os.unlink` / `os.chmod` ... are numbered steps of their own.
"""

import builtins
import dbm.dumb
import errno
import os
import shutil
import types

from sim import core
from worlds import store_env as env


class State:
    def __init__(self):
        self.reset()

    def reset(self):
        self.active = False
        self.count = 0
        self.crash_at = None
        self.labels = []
        self.on_crash = None
        self.exdev = False
        self.fail = None  # callable(label) -> bool, asked at write-like steps
        self.fired = []
        self.on_step = None  # callable(side, label), called BEFORE the step executes
        self.in_set = False
        self.dirty = True
        self.dirty_before = True


S = State()
_INSTALLED = {}


def step(label, write=False, mut=False):
    """called BEFORE the real operation; `write`: may fail with ENOSPC; `write or mut`: changes what is on disk"""
    if not S.active:
        return
    S.count += 1
    side = 'W' if core.current_thread() is not None else 'P'
    if len(S.labels) < 400:
        S.labels.append(f'{side}:{label}')
    if S.on_step is not None:
        S.on_step(side, label)
    S.dirty_before = S.dirty
    if write or mut:
        S.dirty = True  # seen by the NEXT step: the disk may differ from the previous crash image
    if S.crash_at is not None and S.count == S.crash_at:
        S.on_crash(side, label)
    if write and S.fail is not None and S.fail(label):
        S.fired.append(label)
        _RAISER['raise_enospc']()


# the injected error is raised from a code object that does not live under /verif: the kernel treats an
# exception whose innermost frame is harness code as a harness bug (Sim.on_unhandled), and this one is the
# operating system speaking
_RAISER = {}
exec(compile("def raise_enospc():\n    import errno\n    raise OSError(errno.ENOSPC, 'sim: No space left on device')\n",
             '<injected-disk-fault>', 'exec'), _RAISER)


class FileProxy:
    def __init__(self, f, tag):
        self._f, self._tag = f, tag

    def write(self, data):
        step(self._tag + '.write', write=True)
        if len(data) < 2048:
            # stays in the user-space buffer of the file object until flush/close (both numbered steps): the disk
            # does not change now.  Larger writes may be flushed by the buffer and count as disk-changing.
            S.dirty = S.dirty_before
        return self._f.write(data)

    def close(self):
        if not self._f.closed:
            step(self._tag + '.close', mut=True)
        return self._f.close()

    def __enter__(self):
        return self

    def __exit__(self, *a):
        self.close()
        return False

    def __getattr__(self, name):
        return getattr(self._f, name)

    def __iter__(self):
        return iter(self._f)


def _tag_of(path):
    p = os.fsdecode(path) if isinstance(path, (bytes, bytearray)) else str(path)
    b = os.path.basename(p)
    if b.startswith('shelve_'):
        return 'staged'
    if '.' in b and b.rsplit('.', 1)[1] in ('dat', 'dir', 'bak'):
        parts = b.split('.')
        return f'table.{parts[-2]}.{parts[-1]}'
    if len(b) == 73 and b[32] == '_':
        return 'blob'
    return 'file'


def make_open(real_open, prefix=''):
    def counting_open(file, mode='r', *a, **k):
        if any(c in mode for c in 'wax+'):
            tag = prefix + _tag_of(file)
            step(tag + '.open', write=True)
            return FileProxy(real_open(file, mode, *a, **k), tag)
        return real_open(file, mode, *a, **k)

    return counting_open


class _PathShim:
    def __init__(self, prefix):
        self._p = prefix

    def exists(self, p):
        step(self._p + 'exists:' + _tag_of(p))
        return os.path.exists(p)

    def __getattr__(self, name):
        return getattr(os.path, name)


class OsShim:
    """looks like the os module; numbered: close, chmod, unlink, remove, rename, sendfile, utime"""

    def __init__(self, prefix='', exdev=False):
        self._p = prefix
        self._exdev = exdev
        self.path = _PathShim(prefix)

    def __getattr__(self, name):
        return getattr(os, name)

    def close(self, fd):
        step(self._p + 'os.close')
        return os.close(fd)

    def chmod(self, path, mode, **k):
        step(self._p + 'chmod:' + _tag_of(path), mut=True)
        return os.chmod(path, mode, **k)

    def unlink(self, path, **k):
        step(self._p + 'unlink:' + _tag_of(path), mut=True)
        return os.unlink(path, **k)

    def remove(self, path, **k):
        step(self._p + 'unlink:' + _tag_of(path), mut=True)
        return os.remove(path, **k)

    def rename(self, src, dst, **k):
        step(self._p + 'rename:' + _tag_of(src) + '->' + _tag_of(dst), mut=True)
        if self._exdev and S.exdev and _tag_of(src) == 'staged':
            raise OSError(errno.EXDEV, 'sim: Invalid cross-device link')
        return os.rename(src, dst, **k)

    def sendfile(self, out_fd, in_fd, offset, count):
        step(self._p + 'sendfile', write=True)
        return os.sendfile(out_fd, in_fd, offset, count)

    def utime(self, *a, **k):
        step(self._p + 'utime', mut=True)
        return os.utime(*a, **k)


def clone_shutil():
    """the real shutil functions, re-bound to a namespace whose `os` and `open` are numbered"""
    g = dict(shutil.__dict__)
    shim = types.ModuleType('shutil')
    mapping = {}
    for name, val in list(g.items()):
        if isinstance(val, types.FunctionType) and val.__globals__ is shutil.__dict__:
            f = types.FunctionType(val.__code__, g, val.__name__, val.__defaults__, val.__closure__)
            f.__kwdefaults__ = dict(val.__kwdefaults__) if val.__kwdefaults__ else None
            f.__dict__.update(val.__dict__)
            g[name] = f
            mapping[val] = f
    for f in mapping.values():
        if f.__defaults__:
            f.__defaults__ = tuple(mapping.get(d, d) if isinstance(d, types.FunctionType) else d for d in f.__defaults__)
        if f.__kwdefaults__:
            f.__kwdefaults__ = {k: (mapping.get(d, d) if isinstance(d, types.FunctionType) else d) for k, d in f.__kwdefaults__.items()}
    g['os'] = OsShim('move.', exdev=True)
    g['open'] = make_open(builtins.open, 'move.')
    shim.__dict__.update(g)
    return shim


class _IoShim:
    def __init__(self):
        import io

        self._io = io
        self.open = make_open(io.open)

    def __getattr__(self, name):
        return getattr(self._io, name)


def install(level):
    """level 'util': dawgie.db.util only (disk faults in the main history);
    level 'all': also dbm.dumb and the reply of the pipeline (crash enumeration, forked victims only)"""
    import dawgie.db.shelve.comms as comms
    import dawgie.db.util as dbu

    uninstall()
    _INSTALLED['dbu'] = {k: dbu.__dict__.get(k, _MISSING) for k in ('os', 'open', 'shutil', 'tempfile', 'subprocess')}
    dbu.os = OsShim()
    dbu.open = make_open(builtins.open)
    dbu.shutil = clone_shutil()
    real_tmp, real_sub = dbu.tempfile, dbu.subprocess  # already the deterministic / hashlib shims of store_env

    tshim = types.ModuleType('tempfile')
    tshim.__dict__.update({k: v for k, v in real_tmp.__dict__.items() if not k.startswith('__')})

    def mkstemp(*a, **k):
        step('mkstemp', write=True)
        return real_tmp.mkstemp(*a, **k)

    tshim.mkstemp = mkstemp
    dbu.tempfile = tshim
    sshim = types.ModuleType('subprocess')
    sshim.__dict__.update({k: v for k, v in real_sub.__dict__.items() if not k.startswith('__')})

    def check_output(cmd, *a, **k):
        step('digest.' + str(cmd[0]))
        return real_sub.check_output(cmd, *a, **k)

    sshim.check_output = check_output
    dbu.subprocess = sshim
    if level == 'all':
        D = dbm.dumb._Database
        _INSTALLED['dumb'] = (dbm.dumb._io, D._io, D._os)
        io_shim = _IoShim()
        dbm.dumb._io = io_shim
        D._io = io_shim
        D._os = OsShim('table.')
        _INSTALLED['send'] = (comms.Worker._send, comms.Worker.do)
        real_send, real_do = comms.Worker._send, comms.Worker.do

        def _send(self, response):
            if S.in_set:
                step('reply')  # the acknowledgement of a set: the only reply that belongs to "recording a value"
            return real_send(self, response)

        def do(self, request):
            S.in_set = getattr(request, 'func', None) == comms.Func.set
            try:
                return real_do(self, request)
            finally:
                S.in_set = False

        comms.Worker._send = _send
        comms.Worker.do = do


_MISSING = object()


def uninstall():
    import dawgie.db.shelve.comms as comms
    import dawgie.db.util as dbu

    if 'dbu' in _INSTALLED:
        for k, v in _INSTALLED.pop('dbu').items():
            if v is _MISSING:
                dbu.__dict__.pop(k, None)
            else:
                dbu.__dict__[k] = v
    if 'dumb' in _INSTALLED:
        D = dbm.dumb._Database
        dbm.dumb._io, D._io, D._os = _INSTALLED.pop('dumb')
    if 'send' in _INSTALLED:
        comms.Worker._send, comms.Worker.do = _INSTALLED.pop('send')
