"""W-PIPE over virtual weeks: timer events on the live pipeline (C20 sentences 2-3).

The real schedule.periodics / defer / _delay run on the simulated clock; an engine with boot, day-of-week,
day-of-month and date events is generated; scripted workers complete the fired work; software updates and
resets re-load the pipeline in between.  Firings are observed by effect (the algorithm is in the work queue with
targets pending after a defer() call) and compared, after the run, with a reference calendar written here.
"""

import calendar as _cal
import datetime as _dt

from sim import boot, core
from worlds import aegen, pipe, pipeenv

ALL = pipe.ALL
UTC = _dt.timezone.utc
WINDOW = 300.0  # the scheduler queues an event up to five minutes early (its own firing window)


def occurrences(ev, start, end):
    """reference calendar: true occurrences of an event specification in (start, end]"""
    _full, kind, arg, tod = ev
    out = []
    if kind == 'boot':
        return out
    t = _dt.time(*tod)
    if kind == 'day':
        x = _dt.datetime.combine(_dt.date(*arg), t, tzinfo=UTC)
        return [x] if start < x <= end else []
    d = start.date() - _dt.timedelta(days=1)
    while d <= end.date():
        ok = (kind == 'dow' and d.weekday() == arg) or (kind == 'dom' and d.day == arg)
        if ok:
            x = _dt.datetime.combine(d, t, tzinfo=UTC)
            if start < x <= end:
                out.append(x)
        d += _dt.timedelta(days=1)
    return out


class TimerWorld(pipe.PipeWorld):
    def __init__(self, ch, cfg):
        base = dict(events=6, max_steps=7000, workers=2, tick=3600.0, weeks=6,
                    mix=dict(run=3, rerun_executing=0, add_target=2, run_all=1, run_empty=0, update=2),
                    outcome=dict(success=8, failure=1, invalid=1), max_total=5, max_pkgs=2, record_on_run=True, graph_edits=False)
        base.update(cfg or {})
        super().__init__(ch, base)
        self.delays = [1.0, 30.0, 600.0, 3600.0, 7200.0, 40000.0]
        self.gaps = [3600.0, 20000.0, 86400.0, 3 * 86400.0, 6 * 86400.0]
        self.firings = []  # (datetime, alg, targets, known targets then)
        self.defer_calls = 0
        self.defer_log = []  # (instant, {algorithm: scheduler status at that evaluation})
        self.defer_timers = []
        self.loads = []
        self.event_since = {}  # events added by a software update -> when the release declaring them was loaded

    def build(self):
        import dawgie.pl.farm as farm
        import dawgie.pl.schedule as schedule
        from twisted.internet import task

        ch = self.ch
        # the instant the process starts: anywhere in 2024-2027, any time of day, biased to month/year ends
        year = 2024 + ch.choose('cal.year', 4)
        month = 1 + ch.choose('cal.month', 12)
        last = _cal.monthrange(year, month)[1]
        day = [1 + ch.choose('cal.day', last), last, last - 1, 1][ch.choose('cal.daykind', 4)]
        hms = [(ch.choose('cal.h', 24), ch.choose('cal.m', 60), ch.choose('cal.s', 60)), (0, 0, 20), (0, 3, 30), (23, 58, 0)][ch.choose('cal.hmskind', 4)]
        start = _dt.datetime(year, month, day, *hms, tzinfo=UTC)  # biased to the minutes around midnight
        super().build()
        boot.set_epoch(start)
        self.t0 = start
        import dawgie.context as ctx

        ctx.boot_time = boot.now_dt()
        # events: drawn here so that every kind appears often
        algs = self.spec.algs
        evs = []
        for _ in range(1 + ch.choose('ev.n', 3)):
            a = algs[ch.choose('ev.alg', len(algs))]
            k = ['boot', 'dow', 'dom', 'dow', 'dom', 'day'][ch.choose('ev.kind', 6)]
            near = start + _dt.timedelta(seconds=[-600, -10, 10, 200, 400, 5000, 86400 * 3, -100, -250][ch.choose('ev.near', 9)])
            tod = [(ch.choose('ev.h', 24), ch.choose('ev.m', 60), ch.choose('ev.s', 60)), (near.hour, near.minute, near.second), (0, 0, 0), (23, 59, 59)][ch.choose('ev.tod', 4)]
            if k == 'boot':
                e = (a.full, 'boot', True, None)
            elif k == 'dow':
                e = (a.full, 'dow', [ch.choose('ev.dow', 7), start.weekday(), (start.weekday() + 1) % 7][ch.choose('ev.dowkind', 3)], tod)
            elif k == 'dom':
                e = (a.full, 'dom', [1 + ch.choose('ev.dom', 31), start.day, 31, 30, 29, 1][ch.choose('ev.domkind', 6)], tod)
            else:
                dd = start.date() + _dt.timedelta(days=[-3, 0, 1, 9, 40][ch.choose('ev.dayoff', 5)])
                e = (a.full, 'day', (dd.year, dd.month, dd.day), tod)
            if e not in evs:
                evs.append(e)
        self.spec.events = evs
        self.eng = aegen.Engine(self.spec)
        self.eng.install()
        self.factories = self.eng.factories(self.pkg_order(self.spec))
        self.op(f'process starts {start.isoformat()} ({start.strftime("%a")}); events: {evs}')
        w = self
        # coarse dispatch tick: weeks of virtual time at 5 s per tick are out of reach; the timer logic
        # (callLater with computed delays, the 300 s window) does not depend on the tick
        real_start = pipe._orig(task.LoopingCall, 'start')

        def start_(lc, interval, now=True):
            if getattr(lc.f, '__name__', '') in ('dispatch',):
                interval = w.cfg['tick']
            return real_start(lc, interval, now)

        task.LoopingCall.start = start_
        real_defer = pipe._orig(schedule, 'defer')

        def defer():
            return w.on_defer(real_defer)

        schedule.defer = defer

    def commit_update(self):
        """a software update keeps the event declarations; one time in two the new release declares one more event,
        due sooner than anything the running timer chain can know of"""
        if getattr(self, 'pending', None) is not None:
            evs = list(self.spec.events)
            algs = [a for a in self.pending.algs if a.full in self.spec.by]
            if algs and self.ch.flip('ev.added_by_update', 1, 2):
                now = boot.now_dt()
                a = algs[self.ch.choose('ev.alg', len(algs))]
                due = now + _dt.timedelta(seconds=[900, 4000, 30000, 2 * 86400][self.ch.choose('ev.sooner', 4)])
                tod = (due.hour, due.minute, due.second)
                e = (a.full, 'dow', due.weekday(), tod) if self.ch.flip('ev.added_kind', 1, 2) else (a.full, 'dom', due.day, tod)
                if e not in evs:
                    evs.append(e)
                    self.event_since[e] = now
                    self.probes['event_added_by_update'] += 1
                    self.op(f'the new release declares one more event: {e}')
            self.pending.events = evs
        return super().commit_update()

    event_since = None

    def on_build(self, latest, previous, persisted):
        super().on_build(latest, previous, persisted)
        self.loads.append(boot.now_dt())

    # -- observation of firings, by effect -------------------------------------------------------
    def on_defer(self, real):
        import dawgie.db
        import dawgie.pl.schedule as schedule

        sim = self.sim
        self.defer_calls += 1
        nodes = {n.tag: n for n in schedule.per}
        self.defer_log.append((boot.now_dt(), {tag: getattr(n.get('status'), 'name', str(n.get('status'))) for tag, n in nodes.items()}))
        sentinel = '<sim:not fired>'
        before = {}
        for tag, n in nodes.items():
            before[tag] = (n.get('event'), set(n.get('todo')), n in schedule.que)
            n.set('event', sentinel)
        timers0 = list(sim.timers)
        err = None
        try:
            real()
        except Exception as e:  # noqa  (reported below, then re-raised as the real code would see it)
            err = e
        now = boot.now_dt()
        try:
            known = list(dawgie.db.targets())
        except RuntimeError:
            known = self.known_targets()
        for tag, n in nodes.items():
            ev0, todo0, inq0 = before[tag]
            fired = n.get('event') != sentinel
            if not fired:
                n.set('event', ev0)
                continue
            todo = set(n.get('todo'))
            kind = self.ref.kind.get(tag)
            want = {ALL} if kind == 'analysis' else set(known)
            self.firings.append((now, tag))
            self.probes['timer_fired'] += 1
            self.op(f'timer: {tag} queued at {now.isoformat()} for {sorted(todo)}')
            self.G.request([tag], want)
            if not want <= todo:
                self.violate('C20', 'fired_without_all_targets', kind or '?', f'{tag} fired at {now.isoformat()}: pending {sorted(todo)}, known targets {sorted(known)}')
            if want and n not in schedule.que:
                self.violate('C20', 'fired_but_not_queued', kind or '?', f'{tag} fired at {now.isoformat()} but is not in the work queue')
        new_timers = [dc for dc in sim.timers if dc not in timers0]
        self.defer_timers = [dc for dc in self.defer_timers if dc.active()] + new_timers
        # the timer armed by this evaluation must not sleep past the next occurrence of an event it has just evaluated
        active = [dc for dc in self.defer_timers if dc.active()]
        if active and err is None and not schedule.is_paused():
            # (no active timer at all is the known re-arm finding, reported at the end of the run)
            wake = self.t0 + _dt.timedelta(seconds=min(dc.getTime() for dc in active) + boot._state['skew'])
            status = self.defer_log[-1][1]
            for ev in self.spec.events:
                tag = ev[0]
                if ev[1] == 'boot' or tag not in nodes or status.get(tag) in ('waiting', 'running'):
                    continue  # skipped by the status filter: that is the known finding, reported by the calendar check
                nxt = occurrences(ev, now - _dt.timedelta(seconds=WINDOW), now + _dt.timedelta(days=63))
                if not nxt or (nxt[0] - now).total_seconds() <= WINDOW:
                    continue  # due at this evaluation: what happens to its *next* occurrence belongs to the known re-arm finding
                if (wake - nxt[0]).total_seconds() > 1.0:
                    self.violate('C20', 'timer_sleeps_past_event', ev[1] + ('' if new_timers else ':no_new_timer'),
                                 f'evaluated at {now.isoformat()}: the earliest armed timer wakes at {wake.isoformat()}, later than the next occurrence '
                                 f'{nxt[0].isoformat()} of {ev} (which was evaluated, not skipped)')
        if err is not None:
            self.probes['defer_raised'] += 1
            self.op(f'timer: defer() raised {err!r}')
            self.defer_error = repr(err)
            raise err

    defer_error = None

    # -- the run -------------------------------------------------------------------------------------
    def run(self):
        cfg = self.cfg
        self.hands = {}
        self.hand_worker = {}
        try:
            self.build()
            self.watch_hands()
            try:
                self.fsm = pipeenv.boot_pipeline(self.sim)
            except core.HarnessError:
                if self.defer_error is None:
                    raise
                # computing the time to an event failed while the pipeline was loading: it never comes up
                self.violate('C20', 'delay_raises', 'at_load', f'process started {self.t0.isoformat()}, events {self.spec.events}: {self.defer_error}; the pipeline never finishes loading')
                raise pipe.Stop()
            self.op('pipeline is running')
            self.workers = [pipe.Worker(self, i) for i in range(cfg['workers'])]
            self.user = pipe.User(self)
            self.sim.actors.extend(self.workers)
            self.sim.actors.append(self.user)
            horizon = cfg['weeks'] * 7 * 86400.0
            r = self.sim.run(until=lambda: self.stopped, max_steps=cfg['max_steps'], max_time=horizon)
            self.probes['ended_' + r] += 1
            self.calendar_checks()
        except pipe.Stop:
            pass
        finally:
            try:
                self.final_checks()
            finally:
                pipeenv.close_db()
                if getattr(self, 'dir', None):
                    pipeenv.cleanup(self.dir)
        return self.result()

    def calendar_checks(self):
        """post-hoc: firings against the reference calendar"""
        if self.stopped:
            return
        end = boot.now_dt()
        tick = self.cfg['tick']
        fired = {}
        for t, tag in self.firings:
            fired.setdefault(tag, []).append(t)
        by_alg = {}
        for ev in self.spec.events:
            by_alg.setdefault(ev[0], []).append(ev)
        for alg, evs in sorted(by_alg.items()):
            times = fired.get(alg, [])
            occ = sorted(x for ev in evs for x in occurrences(ev, (self.event_since[ev] + _dt.timedelta(seconds=WINDOW)) if ev in self.event_since
                                                              else (self.t0 - _dt.timedelta(seconds=WINDOW)), end - _dt.timedelta(seconds=2 * WINDOW)))
            boots = [ev for ev in evs if ev[1] == 'boot']
            # every firing lands on a moment: within the window before an occurrence (or a boot firing at a load)
            for t in times:
                near = [x for x in occ if abs((x - t).total_seconds()) <= WINDOW + 1.0]  # the scheduler's firing window reaches 300 s to either side of the moment
                at_load = boots and any(abs((t - l).total_seconds()) < 1.0 for l in self.loads)
                if not near and not at_load:
                    nxt = min((x for x in occ if x > t), default=None)
                    prv = max((x for x in occ if x <= t), default=None)
                    past = [e for e in evs if e[1] == 'day' and _dt.datetime.combine(_dt.date(*e[2]), _dt.time(*e[3]), tzinfo=UTC) < t - _dt.timedelta(seconds=WINDOW)]
                    sig = 'date_in_the_past' if past else ('+'.join(sorted({e[1] for e in evs if e[1] != 'boot'})) or 'boot')
                    self.violate('C20', 'fired_off_its_moment', sig,
                                 f'{alg} was queued by the timer at {t.isoformat()} ({t.strftime("%a")}); its events {evs} have no occurrence within the next {int(WINDOW)} s '
                                 f'(previous {prv and prv.isoformat()}, next {nxt and nxt.isoformat()})')
            # every occurrence while the pipeline is up is served (recurrence: weekly / monthly events fire each period)
            for x in occ:
                hit = [t for t in times if abs((x - t).total_seconds()) <= WINDOW + 1.0]
                if hit:
                    self.probes['occurrence_served'] += 1
                    continue
                kinds = '+'.join(sorted({e[1] for e in evs if x in occurrences(e, x - _dt.timedelta(seconds=1), x)}))
                nth = sum(1 for y in occ if y <= x)
                # why: was the timer logic evaluated at all while the occurrence was due, and did it look at this algorithm
                evals = [(t, st) for t, st in self.defer_log if abs((x - t).total_seconds()) <= WINDOW + 1.0]
                if not evals:
                    why = 'no_evaluation_while_due'
                elif all(st.get(alg) in ('waiting', 'running') for _t, st in evals):
                    why = 'skipped_because_status_' + '_or_'.join(sorted({st.get(alg) for _t, st in evals}))
                else:
                    why = 'evaluated_but_not_fired'
                self.violate('C20', 'occurrence_missed', f'{kinds}:{why}',
                             f'{alg}: occurrence {x.isoformat()} ({x.strftime("%a")}) of {evs} was never served (process started {self.t0.isoformat()}, '
                             f'firings of {alg}: {[t.isoformat() for t in times][:6]}, defer calls {self.defer_calls}, defer error {self.defer_error})')
            # boot: exactly once per process
            if boots:
                # a firing at the instant of a (re)load is the boot event's, even when an occurrence of another event of the
                # same algorithm lies within the window (one evaluation fires the node once for both: observed as one)
                nboot = sum(1 for t in times if any(abs((t - l).total_seconds()) < 1.0 for l in self.loads)
                            or not [x for x in occ if abs((x - t).total_seconds()) <= WINDOW + 1.0])
                self.probes['boot_event_engine'] += 1
                if nboot != 1:
                    first = self.defer_log[0][1].get(alg) if self.defer_log else None
                    why = f'never:status_{first}_at_load' if nboot == 0 else f'again_after_reload:loads={min(len(self.loads), 3)}'
                    self.violate('C20', 'boot_event_count', why, f'{alg} has a boot event; it fired {nboot} times in one process (loads: {len(self.loads)})')
        if len(self.loads) > 1:
            self.probes['reloaded_with_events'] += 1
        if any(e[1] in ('dow', 'dom') for e in self.spec.events):
            self.probes['periodic_event_engine'] += 1
            if not [dc for dc in self.defer_timers if dc.active()]:
                self.violate('C20', 'timer_not_rearmed', '+'.join(sorted({e[1] for e in self.spec.events})),
                             f'periodic events {self.spec.events} exist but no timer is armed at {end.isoformat()} (defer calls {self.defer_calls}, last error {self.defer_error})')

    def result(self):
        r = super().result()
        r['nontrivial'] = bool(self.firings and self.sim.counts['sched.reordered'] > 0 and self.G.replies >= 1)
        r['firings'] = len(self.firings)
        return r


def warmup():
    return pipe.warmup()


def run(ch, cfg):
    return TimerWorld(ch, cfg).run()
