"""W-PIPE with a stranger at the front end: raw HTTP requests through SimConn to the real twisted.web Site
(dawgie.fe.root()) at any instant of the running pipeline.  Decides C19.

The simulator owns: the directory trees (AE front-end dir, bundled or configured site dir, canary files with
unique tokens outside both, symlinks inside the roots pointing in and out, retargeted between requests), whether
client certificates are configured, the peer certificate of each connection, the access hook (default / raising /
deny all / allow all) and the instant of every request relative to scheduler and life-cycle activity.
"""

import functools
import json
import os

from worlds import fsm, http, pipe, pipeenv

PROTECTED = {'/api/cmd/run', '/api/cmd/reset', '/api/cmd/snapshot', '/api/rev/submit', '/app/run', '/app/reset', '/app/submit', '/app/snapshot'}
METHODS = ['GET', 'POST', 'PUT', 'DELETE']


class FakeCert:
    """stands for the X509 object a TLS transport returns for a verified client certificate"""

    def __init__(self, serial):
        self.serial = serial

    def get_serial_number(self):
        return self.serial


def hook_raises(endpoint, cert):
    raise RuntimeError('sim: access hook failed')


def hook_raises_attr(endpoint, cert):
    return cert.get_subject().commonName == endpoint  # AttributeError: the hook uses the wrong certificate API / cert is None


def hook_raises_import(endpoint, cert):
    import sim_policy_helper_that_is_not_installed  # noqa: F401  (ImportError inside the hook)

    return True


def hook_deny(endpoint, cert):
    return False


def hook_allow(endpoint, cert):
    return True


class FeWorld(fsm.FsmWorld):
    def __init__(self, ch, cfg):
        base = dict(events=14, max_steps=1800,
                    mix=dict(run=2, rerun_executing=0, add_target=1, run_all=0, run_empty=0, update=0, submit=0, reset=0, bad_trigger=0,
                             static=6, endpoint=8))
        base.update(cfg or {})
        super().__init__(ch, base)
        self.calls = {}
        self.nreq = 0
        self.tokens = {}
        self.public = {}

    # -- construction -----------------------------------------------------------------
    def build(self):
        import dawgie.context as ctx
        import dawgie.fe.api.submit as asub
        import dawgie.fe.basis as basis
        import dawgie.fe.submit as lsub
        import dawgie.fe.svrender as svrender
        import dawgie.pl.snapshot as snapshot
        import dawgie.security as sec

        super().build()
        ch, d = self.ch, self.dir
        # --- configuration owned by the simulator
        self.certs_configured = bool(ch.choose('fe.client_certs', 2)) if self.cfg.get('client_certs') is None else self.cfg['client_certs']
        self.hook = (['default', 'default', 'raising', 'deny', 'allow', 'raising_attr', 'raising_import', 'missing'][ch.choose('fe.hook', 8)]
                     if self.cfg.get('hook') is None else self.cfg['hook'])
        self.own_site = bool(ch.choose('fe.own_site', 2))
        sec._certs.clear()
        if self.certs_configured:
            sec._certs.append(object())
        ctx.sanction_override = {'default': 'dawgie.security.is_sanctioned', 'raising': 'worlds.fe.hook_raises', 'deny': 'worlds.fe.hook_deny',
                                 'allow': 'worlds.fe.hook_allow', 'raising_attr': 'worlds.fe.hook_raises_attr', 'raising_import': 'worlds.fe.hook_raises_import',
                                 'missing': 'worlds.fe.hook_that_was_misspelt'}[self.hook]
        # plain HTTP front end (no TLS identity of its own) with client certificates nevertheless configured is a legal, if odd, deployment
        self.tls = True if self.cfg.get('tls') is None and not ch.flip('fe.plain_http', 1, 5) else bool(self.cfg.get('tls'))
        if not self.tls:
            sec._myself.clear()
            self.cfg['workers'] = 0  # the farm port would ask for the legacy handshake; this world is about the front end
            self.probes['plain_http_front_end'] += 1
        ctx.identity_override = 'dawgie.security.fetch_identity'
        # --- directory trees
        fe = os.path.join(d, 'fe')
        self.roots = [fe]
        os.makedirs(os.path.join(fe, 'pages', 'sub'), exist_ok=True)
        self.write(os.path.join(fe, 'pages', 'index.html'), 'fe-index', public=True)
        self.write(os.path.join(fe, 'pages', 'sub', 'data.txt'), 'fe-data', public=True)
        self.write(os.path.join(fe, 'readme.txt'), 'fe-readme', public=True)
        if self.own_site:
            site = os.path.join(d, 'site')
            os.makedirs(os.path.join(site, 'assets'), exist_ok=True)
            self.write(os.path.join(site, 'index.html'), 'site-index', public=True)
            self.write(os.path.join(site, 'assets', 'app.js'), 'site-js', public=True)
            ctx.site_path = site
            self.roots.append(site)
        else:
            ctx.site_path = ''
        secret = os.path.join(d, 'secret')
        os.makedirs(os.path.join(secret, 'deep'), exist_ok=True)
        os.makedirs(os.path.join(d, 'fe-private'), exist_ok=True)  # a sibling whose name merely starts like a root
        self.canaries = [os.path.join(secret, 'canary.txt'), os.path.join(secret, 'deep', 'index.html'), os.path.join(d, 'db', 'private.key'),
                         os.path.join(d, 'fe-private', 'sibling.txt')]
        for i, c in enumerate(self.canaries):
            self.write(c, f'canary{i}')
        # symlinks inside the roots: one pointing inside, two pointing out (file and directory)
        self.links = {}
        for name, target in (('link_in', os.path.join(fe, 'readme.txt')), ('link_out', self.canaries[0]), ('dir_out', secret)):
            p = os.path.join(fe, name)
            os.symlink(target, p)
            self.links[name] = p
        # a directory inside the root whose index.html is a link to the outside
        os.makedirs(os.path.join(fe, 'idx_out'), exist_ok=True)
        os.symlink(self.canaries[1], os.path.join(fe, 'idx_out', 'index.html'))
        if not self.own_site:
            from dawgie.util import resolve_site

            self.roots.append(str(resolve_site()[0]))
        # --- endpoint table: count handler entries per uri (every run wraps afresh)
        self.endpoints = {}
        self.calls = {}
        w = self

        def walk(node):
            for child in list(getattr(node, 'children', {}).values()):
                if isinstance(child, basis.DynamicContent):
                    uri = child._DynamicContent__uri
                    f = child._DynamicContent__fnc
                    f = getattr(f, '_sim_counted', f)
                    self.endpoints[uri] = child
                    self.calls[uri] = 0
                    if isinstance(f, basis.DeferContainer):
                        f._sim_uri = uri
                        child._DynamicContent__fnc = f
                    else:
                        @functools.wraps(f)
                        def counted(*a, _f=f, _uri=uri, **k):
                            w.calls[_uri] += 1
                            return _f(*a, **k)

                        counted._sim_counted = f
                        child._DynamicContent__fnc = counted
                else:
                    walk(child)

        walk(basis._root)
        for cls in (asub.Defer, lsub.Defer, svrender.Defer):
            real_call = pipe._orig(cls, '__call__')

            def call(inst, *a, _real=real_call, **k):
                uri = getattr(inst, '_sim_uri', None)
                if uri is not None:
                    w.calls[uri] += 1
                return _real(inst, *a, **k)

            cls.__call__ = call
        snapshot.grab = lambda: {'snapshot': 'stub'}  # the real one walks every object of the interpreter
        # --- observe every dynamic request at the render boundary
        for m in METHODS:
            name = 'render_' + m
            real_render = pipe._orig(basis.DynamicContent, name)

            def render(dc, request, _real=real_render, _m=m):
                return w.on_render(dc, request, _m, _real)

            setattr(basis.DynamicContent, name, render)

    def write(self, path, label, public=False):
        self.nreq += 0
        token = f'TOKEN-{label}-{len(self.tokens) + len(self.public):03d}-x7Qz'
        with open(path, 'w') as f:
            f.write(f'<html>{token}</html>\n')
        (self.public if public else self.tokens)[token] = path

    # -- oracle at the render boundary ------------------------------------------------------
    def on_render(self, dc, request, method, real):
        uri = dc._DynamicContent__uri
        cert = request.transport.getPeerCertificate() if 'getPeerCertificate' in dir(request.transport) else None
        before = self.fsm_fields() if hasattr(self, 'fsm') else None
        n0 = self.calls.get(uri, 0)
        resp = real(dc, request)
        entered = self.calls.get(uri, 0) > n0
        after = self.fsm_fields() if hasattr(self, 'fsm') else None
        self.probes['dynamic_request'] += 1
        stranger = self.certs_configured and cert is None
        if stranger:
            self.probes['request_without_certificate'] += 1
        tag = f'{method} {uri} cert={"yes" if cert is not None else "no"} certs_configured={self.certs_configured} hook={self.hook}'
        self.op(f'fe: {tag} -> handler {"ENTERED" if entered else "not entered"}')
        if self.hook in ('raising', 'raising_attr', 'raising_import', 'missing'):
            self.probes['request_with_raising_hook'] += 1
            if entered:
                self.violate('C19', 'hook_error_allowed_access', uri, f'the access hook raised but the handler of {uri} was entered ({tag})')
        if self.hook == 'deny' and entered:
            self.violate('C19', 'hook_denial_ignored', uri, f'the access hook denied but the handler of {uri} was entered ({tag})')
        if stranger and self.hook != 'allow':
            if uri in PROTECTED:
                self.probes['stranger_at_protected_endpoint'] += 1
                if entered:
                    self.violate('C19', 'stranger_invoked_command', uri, f'request without client certificate entered the handler of {uri} ({tag})')
            if before is not None and before != after:
                diff = sorted(k for k in before if before[k] != after[k])
                self.violate('C19', 'stranger_changed_state', f'{uri}:{",".join(diff)}',
                             f'request without client certificate changed the pipeline: { {k: (before[k], after[k]) for k in diff} } ({tag})')
            if entered:
                self.probes['stranger_served_public_endpoint'] += 1
        if entered and uri in PROTECTED:
            self.probes['protected_endpoint_entered_with_access'] += 1
        if entered and uri in ('/api/cmd/run', '/app/run'):
            try:
                ok = json.loads(resp.decode())
                ok = ok.get('status') == 'success' or ok.get('alert_status') == 'success'
            except Exception:  # noqa
                ok = False
            if ok:
                names = [a.decode() for a in request.args.get(b'runnables' if uri.startswith('/api') else b'tasks', [])]
                targets = {a.decode() for a in request.args.get(b'targets', [])}
                self.G.request(names, targets)
                self.op(f'fe: run request let through: {names} on {sorted(targets)}')
        return resp

    # -- workload ----------------------------------------------------------------------------
    def user_event(self):
        ch, cfg = self.ch, self.cfg
        bag = [k for k, n in cfg['mix'].items() for _ in range(n)]
        kind = bag[ch.choose('u.kind', len(bag))]
        if kind == 'static':
            return self.static_request()
        if kind == 'endpoint':
            return self.endpoint_request()
        rest = {k: n for k, n in cfg['mix'].items() if k not in ('static', 'endpoint')}
        saved = cfg['mix']
        cfg['mix'] = rest
        try:
            return super().user_event()
        finally:
            cfg['mix'] = saved

    def cert(self):
        return FakeCert(0x51) if self.ch.flip('fe.with_cert', 1, 3) else None

    def static_request(self):
        ch = self.ch
        # retarget a symlink now and then (between requests)
        if ch.flip('fe.retarget', 1, 5):
            name = ['link_in', 'link_out'][ch.choose('fe.retarget_which', 2)]
            tgt = [os.path.join(self.roots[0], 'readme.txt'), self.canaries[0], self.canaries[2]][ch.choose('fe.retarget_to', 3)]
            os.unlink(self.links[name])
            os.symlink(tgt, self.links[name])
            self.probes['symlink_retargeted'] += 1
        shape = ch.choose('fe.path_shape', 7)
        ups = ch.choose('fe.ups', 14)
        canary = self.canaries[ch.choose('fe.canary', len(self.canaries))]
        if shape == 0:  # a real file inside a root
            path = ['/pages/index.html', '/pages/sub/data.txt', '/readme.txt', '/pages', '/pages/', '/index.html', '/assets/app.js', '/link_in'][ch.choose('fe.inside', 8)]
        elif shape == 1:  # climb out, then the absolute location of a canary
            path = '/' + '../' * ups + canary.lstrip('/')
        elif shape == 2:  # climb relative to a root
            root = self.roots[ch.choose('fe.root', len(self.roots))]
            path = '/' + os.path.relpath(canary, root)
        elif shape == 3:  # through symlinks that live inside the root
            path = ['/link_out', '/dir_out/canary.txt', '/dir_out/deep', '/dir_out/deep/', '/pages/../link_out', '/dir_out/../db/private.key',
                    '/idx_out', '/idx_out/', '/idx_out/index.html'][ch.choose('fe.vialink', 9)]
        elif shape == 4:  # odd segments
            segs = ['..', '.', '', '%2e%2e', '%2f', 'pages', 'x' * 300, '..%2f', '....', 'secret', 'canary.txt', 'fe']
            n = 1 + ch.choose('fe.nseg', 8)
            path = '/' + '/'.join(segs[ch.choose('fe.seg', len(segs))] for _ in range(n))
        elif shape == 5:  # absolute path after extra slashes
            path = '//' + canary.lstrip('/') if ch.flip('fe.dbl', 1, 2) else '/.' + canary
        else:  # dive into a root, climb further than the dive, land on the canary
            path = '/pages/sub/' + '../' * (2 + ups) + canary.lstrip('/')
        self.probes['static_request'] += 1
        self.probes[f'static_shape_{shape}'] += 1
        self.op(f'stranger: GET {path[:160]}')
        c = http.HttpClient(self.sim, pipeenv.FE_PORT, 'GET', path, None, on_done=lambda c, path=path: self.on_static_reply(c, path), cert=self.cert())
        self.http_pending.append(c)

    def on_static_reply(self, c, path):
        body = c.body or b''
        text = body.decode('latin1')
        for token, where in self.tokens.items():
            if token in text:
                self.violate('C19', 'file_outside_roots_served', os.path.basename(where),
                             f'GET {path[:200]} returned the content of {where}, which is outside the site roots {self.roots}')
        if any(t in text for t in self.public):
            self.probes['static_file_inside_root_served'] += 1
        elif 'jail break' in text:
            self.probes['static_jailbreak_reported'] += 1

    def endpoint_request(self):
        ch = self.ch
        uris = sorted(self.endpoints)
        if ch.flip('fe.protected_bias', 1, 2):
            uris = sorted(PROTECTED & set(uris))
        uri = uris[ch.choose('fe.uri', len(uris))]
        method = METHODS[ch.choose('fe.method', 4)]
        if uri in PROTECTED and ch.flip('fe.right_method', 2, 3):
            method = 'GET' if uri.endswith('snapshot') else 'POST'
        algs = [a.full for a in self.spec.algs]
        args = {}
        last = uri.rsplit('/', 1)[-1]
        if last == 'run':
            args = {'runnables': [algs[ch.choose('fe.alg', len(algs))]], 'tasks': [algs[ch.choose('fe.alg2', len(algs))]],
                    'targets': [pipe.TARGET_POOL[ch.choose('fe.target', len(pipe.TARGET_POOL))]]}
        elif last == 'reset':
            args = {'archive': ['true']}
        elif last == 'submit':
            self.nsub += 1
            cs = f'cs{self.nsub}'
            sub = dict(changeset=cs, priority='now', n=self.nsub)
            self.by_changeset[cs] = sub
            self.current_submission = sub
            args = {'changeset': [cs], 'submission': ['now']}
        cert = self.cert()
        self.probes['endpoint_request'] += 1
        c = http.HttpClient(self.sim, pipeenv.FE_PORT, method, uri, args, on_done=lambda c: None, cert=cert)
        self.http_pending.append(c)

    def result(self):
        r = super().result()
        r['nontrivial'] = bool(self.probes['dynamic_request'] + self.probes['static_request'] >= 3 and self.sim.counts['sched.reordered'] > 0)
        return r


def warmup():
    return pipe.warmup()


def run(ch, cfg):
    return FeWorld(ch, cfg).run()
