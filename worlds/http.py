"""event-driven HTTP/1.1 client actor end on a SimConn, talking to the real twisted.web Site"""

import urllib.parse


class HttpClient:
    def __init__(self, sim, port, method, path, args=None, on_done=None, cert=None, host='10.0.3.1', raw=None, body_args=True):
        self.sim = sim
        self.buf = b''
        self.done = False
        self.on_done = on_done
        self.status = None
        self.body = None
        self.closed_by = None
        self.request_line = f'{method} {path}'
        self.conn = sim.connect(port, self, host=host, cert=cert)
        if raw is None:
            q = urllib.parse.urlencode(args or {}, doseq=True)
            if method in ('POST', 'PUT') and body_args:
                body = q.encode()
                head = (f'{method} {path} HTTP/1.1\r\nHost: sim\r\nConnection: close\r\n'
                        f'Content-Type: application/x-www-form-urlencoded\r\nContent-Length: {len(body)}\r\n\r\n').encode()
                raw = head + body
            else:
                if q:
                    path = path + '?' + q
                raw = f'{method} {path} HTTP/1.1\r\nHost: sim\r\nConnection: close\r\n\r\n'.encode()
        self.conn.client_send(raw)

    def on_data(self, data):
        self.buf += data

    def _finish(self, why):
        if self.done:
            return
        self.done = True
        self.closed_by = why
        head, _, body = self.buf.partition(b'\r\n\r\n')
        lines = head.split(b'\r\n')
        try:
            self.status = int(lines[0].split()[1])
        except Exception:  # noqa
            self.status = None
        self.headers = {}
        for l in lines[1:]:
            k, _, v = l.partition(b':')
            self.headers[k.strip().lower().decode('latin1')] = v.strip().decode('latin1')
        if self.headers.get('transfer-encoding', '').lower() == 'chunked':
            out, rest = b'', body
            while rest:
                size, _, rest = rest.partition(b'\r\n')
                try:
                    n = int(size.split(b';')[0], 16)
                except ValueError:
                    break
                if n == 0:
                    break
                out += rest[:n]
                rest = rest[n + 2:]
            body = out
        self.body = body
        if not self.conn.client_gone:
            self.conn.client_close()
        if self.on_done:
            self.on_done(self)

    def on_eof(self):
        self._finish('eof')

    def on_reset(self):
        self._finish('reset')
