"""Process crashes of W-STORE (DESIGN.md section 2.6).

crash_in_process: the pipeline process dies at a step boundary of the simulation.  Between two
simulation steps no DAWGIE code is in the middle of a file operation (pipeline code runs atomically
inside a step, client threads are parked at socket operations) and dbm.dumb keeps no file open
between calls, so the on-disk state at that instant IS what a SIGKILL would leave: the directory
is copied, every handle of the dead process is dropped without commit, and the next incarnation
opens the copy.

enumerate_updates: crash at every I/O step *inside* an update -- forked incarnations, real _exit.
"""

import os
import shutil

from sim import core
from worlds import store_env as env
from worlds import store_model as sm


def read_everything(w):
    """first thing after a crash: all six tables, every key and value, both directories"""
    import dawgie.context as ctx

    cat = w.catalogue()
    for tn in env.TABLES:
        for k, v in cat.t[tn].items():
            str(k), str(v)
    for d in (ctx.data_dbs, ctx.data_stg):
        for f in sorted(os.listdir(d)):
            with open(os.path.join(d, f), 'rb') as fh:
                fh.read()
    return cat


def crash_in_process(w, mid_phase):
    import dawgie.context as ctx
    import dawgie.db

    sim = w.sim
    w.faults['fault.pipeline_crash'] += 1
    w.op('FAULT: the pipeline process is killed (dirty), a new one opens the store'
         + (' while clients are at work' if mid_phase else ''))
    if mid_phase:
        w.probes['crash_while_clients_work'] += 1
    for cl in w.clients:
        if cl.alive:
            w.kill_client(cl, count=False)
    new = env.rundir()
    for sub in ('db', 'dbs', 'stg'):
        shutil.rmtree(os.path.join(new, sub))
        shutil.copytree(os.path.join(w.dir, sub), os.path.join(new, sub))
    env.abandon_db()
    old, w.dir = w.dir, new
    env.cleanup(old)
    # everything that lived in the dead process is gone
    del sim.timers[:]
    sim._soon.clear()
    sim.fromthread.clear()
    for c in list(sim.conns):
        c.q['c2s'].clear()
        c.q['s2c'].clear()
        c.client_gone = c.server_gone = True
    del sim.conns[:]
    sim.listeners.clear()
    env.configure(new)
    ctx.db_lock = False
    try:
        dawgie.db.open()
        read_everything(w)
    except Exception as e:  # noqa
        w.violate('C07', 'store_unreadable', type(e).__name__, f'after a dirty crash the store cannot be read back: {e!r}')
        return
    w.check_catalogue('crash', reopened=True, crashed=True)
    if not w.stopped:
        w.audit('crash')
    if not w.stopped:
        from worlds import store_c07

        store_c07.check_store(w, 'crash', crashed=True)


def enumerate_updates(w):
    raise core.HarnessError('not built yet')
