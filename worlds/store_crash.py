"""Process crashes of W-STORE (DESIGN.md section 2.6).

crash_in_process -- the pipeline process dies at a *step boundary* of the simulation.  Between two
simulation steps no DAWGIE code is in the middle of a file operation (pipeline code runs atomically
inside a step, client threads are parked at socket operations) and dbm.dumb keeps no file open between
calls, so the on-disk state at that instant IS what a SIGKILL would leave: the directory is copied,
every handle of the dead process is dropped without commit, and the next incarnation opens the copy.

enumerate_updates -- crash at every I/O step *inside* an update (C07, level fault_enumeration).
What was built, and why it deviates from "one fork + os._exit(137) per step":
  * measured in this VM a fork of the warmed run process costs 0.3-0.9 s of copy-on-write page faults
    as soon as the child executes anything (2 forks per crash point = 60 s for ONE update of two
    values).  A kill leaves behind exactly the files as the kernel sees them at that instant: data
    still in user-space buffers is lost, nothing is committed, nothing is closed.  That state can be
    captured without killing anybody: *copy the store directory immediately before the step*.
  * so, in an enumerated phase (normal clients, real chooser, real concurrency), the numbered I/O
    wrappers of worlds/store_io.py call Imager.take() BEFORE every step -- worker side (mkstemp,
    os.close, open, write, close, chmod, two digests) and pipeline side (exists, rename | unlink |
    cross-device copy steps, table .dat/.dir open/write/close/chmod, the reply to the set) alike --
    which copies db/, dbs/, stg/ into a crash image and snapshots the model with the value being
    stored marked "may or may not be recorded".  Steps before which nothing changed on disk since
    the previous image share it (the wrappers know whether a disk-changing step ran in between; no
    clock or mtime is consulted).
  * after the phase every image is opened by a *new incarnation*: the real DBI.open() on the image
    (the history's own handles are kept aside, worlds.store_env.swapped_store), which first reads
    EVERYTHING back -- six tables, every key and value, both directories; an exception is the
    violation store_unreadable -- and is then judged by the catalogue / model / store oracles.
  * calibrate_real_kill: the equivalence "image before step k == what a real kill before step k
    leaves" is itself tested in batches of their own (real-kill-calibration*): a forked victim runs one update on a copy under the
    boring chooser, takes the image before step k and then REALLY dies -- os._exit(137) for a
    pipeline-side step; for a worker-side step only the client dies (thread never released again, no
    finally block runs, sockets reset), the pipeline sees the lost connection and is then ended with
    a dirty _exit too.  Acknowledgements are written to a pipe as they happen.  The directory left
    by the dead process must equal the image byte for byte (else: harness error), and is judged by
    the same oracles.
"""

import json
import os
import select
import shutil
import traceback

from sim import core
from worlds import store_env as env


def read_everything(w):
    """first thing after a crash: all six tables, every key and value, both directories"""
    import dawgie.context as ctx

    cat = w.catalogue()
    for tn in env.TABLES:
        for k, v in cat.t[tn].items():
            str(k), str(v)
    for d in (ctx.data_dbs, ctx.data_stg):
        os.listdir(d)  # the content of every stored file is read (and hashed) by store_c07.check_store right after
    return cat


def copy_store(src, dst):
    for sub in ('db', 'dbs', 'stg'):
        shutil.rmtree(os.path.join(dst, sub), ignore_errors=True)
        shutil.copytree(os.path.join(src, sub), os.path.join(dst, sub))


def post_crash_checks(w):
    import dawgie.db

    try:
        dawgie.db.open()
        cat = read_everything(w)
    except Exception as e:  # noqa
        w.violate('C07', 'store_unreadable', type(e).__name__, f'after a dirty crash the store cannot be read back: {e!r}')
        return
    w.check_all('crash', cat=cat, reopened=True, crashed=True)


def crash_in_process(w, mid_phase):
    import dawgie.context as ctx

    sim = w.sim
    w.faults['fault.pipeline_crash'] += 1
    w.op('FAULT: the pipeline process is killed (dirty), a new one opens the store'
         + (' while clients are at work' if mid_phase else ''))
    if mid_phase:
        w.probes['crash_while_clients_work'] += 1
    for cl in w.clients:
        if cl.alive:
            w.kill_client(cl, count=False)
    new = env.rundir()
    copy_store(w.dir, new)
    env.abandon_db()
    old, w.dir = w.dir, new
    env.cleanup(old)
    # everything that lived in the dead process is gone
    del sim.timers[:]
    sim._soon.clear()
    sim.fromthread.clear()
    for c in list(sim.conns):
        c.q['c2s'].clear()
        c.q['s2c'].clear()
        c.client_gone = c.server_gone = True
    del sim.conns[:]
    sim.listeners.clear()
    env.configure(new)
    ctx.db_lock = False
    post_crash_checks(w)


# --------------------------------------------------------------------------
# forked incarnations
# --------------------------------------------------------------------------


def fork_child(fn, timeout=40.0):
    """fork; the child runs fn(write_fd) and never returns; -> (exit code, bytes written by the child)"""
    r, wfd = os.pipe()
    pid = os.fork()
    if pid == 0:
        code = 98
        try:
            os.close(r)
            fn(wfd)
            code = 0
        except BaseException:  # noqa
            try:
                os.write(wfd, ('\nE' + json.dumps(traceback.format_exc()[-2500:]) + '\n').encode())
            except Exception:  # noqa
                pass
            code = 99
        finally:
            os._exit(code)
    os.close(wfd)
    chunks = []
    while True:
        rd, _, _ = select.select([r], [], [], timeout)
        if not rd:
            try:
                os.kill(pid, 9)
            except ProcessLookupError:
                pass
            os.waitpid(pid, 0)
            os.close(r)
            raise core.HarnessError('forked incarnation timed out')
        b = os.read(r, 1 << 16)
        if not b:
            break
        chunks.append(b)
    os.close(r)
    _, status = os.waitpid(pid, 0)
    return os.waitstatus_to_exitcode(status), b''.join(chunks)


def parse_report(data):
    acks, info, crash = [], None, None
    for line in data.decode(errors='replace').split('\n'):
        if line.startswith('A'):
            acks.append(line[1] == '1')
        elif line.startswith('X'):
            crash = line[1:]
        elif line.startswith('J'):
            info = json.loads(line[1:])
        elif line.startswith('E'):
            raise core.HarnessError('incarnation failed: ' + json.loads(line[1:]))
    return acks, info, crash


# --------------------------------------------------------------------------
# crash images: one per I/O step
# --------------------------------------------------------------------------


def side_name(label):
    """signatures name the side of the crashed step only (the step itself is in the message): one group per defect"""
    return 'crash_at_worker_step' if label.startswith('W') else 'crash_at_pipeline_step'


def same_tree(a, b):
    """byte-for-byte comparison of the three store directories; -> None or a description of the first difference"""
    for sub in ('db', 'dbs', 'stg'):
        la, lb = sorted(os.listdir(os.path.join(a, sub))), sorted(os.listdir(os.path.join(b, sub)))
        if la != lb:
            return f'{sub}: {sorted(set(la) ^ set(lb))}'
        for f in la:
            with open(os.path.join(a, sub, f), 'rb') as fa, open(os.path.join(b, sub, f), 'rb') as fb:
                if fa.read() != fb.read():
                    return f'{sub}/{f} differs'
    return None


class Imager:
    """While armed, a crash image of the store is taken immediately BEFORE every numbered I/O step of every
    update running in the phase -- worker side and pipeline side alike -- together with a copy of the model
    in which the value being stored at that instant is marked uncertain.  The image is what a kill of the
    process at that instant leaves behind: files as the kernel sees them (data still in user-space buffers
    is NOT in the image, exactly as it is lost by a SIGKILL), nothing committed, nothing closed.
    calibrate_real_kill() checks this equivalence against a real fork + os._exit(137)."""

    def __init__(self, w):
        self.w = w
        self.images = []
        self.n = 0
        self.last = None
        self.steps = 0

    def arm(self):
        from worlds import store_io as sio

        sio.install('all')
        sio.S.exdev = bool(self.w.cfg['exdev'])
        sio.S.fail = self.w.disk_full if self.w.cfg['enospc'][0] else None
        sio.S.on_step = self.take
        sio.S.active = True

    def disarm(self):
        from worlds import store_io as sio

        sio.S.on_step = None
        self.w.restore_io()

    def take(self, side, label):
        """runs inside the call stack of the code under test: whatever goes wrong HERE is a harness error, never an
        exception of the operation"""
        try:
            self._take(side, label)
        except core.HarnessError:
            raise
        except Exception as e:  # noqa
            raise core.HarnessError(f'crash image before {side}:{label} failed: {e!r}') from e

    def _take(self, side, label):
        import copy

        w = self.w
        self.steps += 1
        w.crash_points += 1
        w.probes['crash_point'] += 1
        w.probes['crash_point_worker_side' if side == 'W' else 'crash_point_pipeline_side'] += 1
        inflight = []
        for cl in w.clients:
            op = cl.cur
            bot = op.get('bot') if op else None
            if bot is not None and bot._nack < len(bot._intents) and not cl.killed:
                inflight.append(bot._intents[bot._nack])
                if bot._nack > 0:
                    w.probes['crash_between_values_of_one_update'] += 1
        if label.startswith('table.prime'):
            w.probes['crash_between_move_and_record'] += 1
        if label.startswith(('move.blob', 'move.file', 'move.sendfile', 'move.unlink', 'move.chmod', 'move.utime')):
            w.probes['crash_inside_cross_device_copy'] += 1
        from worlds import store_io as sio

        # no clock, no mtime: the wrappers themselves know whether a disk-changing step ran since the last image
        dirty, sio.S.dirty = sio.S.dirty, False
        key = (w.model.acked, w.model.uncertain, tuple(i.brief() for i in inflight))
        if not dirty and key == self.last:
            w.probes['crash_point_same_image_as_previous'] += 1
            return
        self.last = key
        if len(self.images) >= w.cfg['max_images']:
            w.probes['crash_image_budget_exhausted'] += 1
            return
        self.n += 1
        img = f'{w.dir}-i{self.n:04d}'
        shutil.rmtree(img, ignore_errors=True)  # pids are recycled: a killed earlier process may have left this name
        os.makedirs(img)
        copy_store(w.dir, img)
        model = copy.deepcopy(w.model)
        for it in inflight:
            model.maybe(it)
        seen = {t: dict(d) for t, d in w.seen_ids.items()}
        self.images.append((img, model, f'{side}:{label}', '; '.join(i.brief() for i in inflight) or 'no update in flight', seen))

    def check_all(self):
        w = self.w
        imgs, self.images = self.images, []
        try:
            for img, model, label, text, seen in imgs:
                verdict = check_image(w, img, model, seen)
                w.probes['crash_image_checked'] += 1
                w.sim.log('crashpoint', f'{label}:{len(verdict)}')
                for v in verdict:
                    w.violate(v['property'], v['rule'], f"{v['signature']}@{side_name(label)}",
                              f'crash immediately before I/O step {label} while storing [{text}]: ' + v['message'], fatal=False)
                if w.stopped:
                    break
        finally:
            for rec in imgs:
                shutil.rmtree(rec[0], ignore_errors=True)

    def drop(self):
        for rec in self.images:
            shutil.rmtree(rec[0], ignore_errors=True)
        self.images = []


def check_image(w, img, model, seen=None):
    """a new incarnation opens the crashed store (the real DBI.open on the image), reads EVERYTHING back and
    is judged by the catalogue / model / store oracles; -> list of violations"""
    import collections
    import copy

    saved = dict(model=w.model, seen_ids=w.seen_ids, violations=w.violations, vcount=w.vcount, stopped=w.stopped,
                 stop_on=w.stop_on, probes=w.probes, faults=w.faults, ops=w.ops)
    w.model, w.seen_ids = model, (seen if seen is not None else copy.deepcopy(w.seen_ids))
    w.violations, w.vcount, w.stopped, w.stop_on = [], collections.Counter(), False, set()
    w.probes, w.faults, w.ops = collections.Counter(), collections.Counter({'fault.crash_point': 1}), []
    try:
        try:
            with env.swapped_store(img):
                cat = read_everything(w)
                w.check_all('crash', cat=cat, reopened=True, crashed=True)
        except core.HarnessError:
            raise
        except Exception as e:  # noqa
            tb = traceback.extract_tb(e.__traceback__)
            here = os.path.dirname(os.path.abspath(__file__))
            if tb and tb[-1].filename.startswith(here):
                raise
            w.violate('C07', 'store_unreadable', type(e).__name__, f'after the crash the store cannot be read back: {e!r}')
        out = list(w.violations)
        keep = {k: v for k, v in w.probes.items() if k.startswith(('name_lost', 'staging_leftover', 'temporary_file'))}
    finally:
        for k, v in saved.items():
            setattr(w, k, v)
    w.probes.update(keep)
    return out


# --------------------------------------------------------------------------
# calibration against a real kill
# --------------------------------------------------------------------------


def run_victim(w, op, dirk, k, wfd):
    """child process: run `op` on the copy `dirk` under the boring chooser; immediately before I/O step k take
    the crash image, then really die: os._exit(137) for a pipeline-side step; for a worker-side step only the
    client dies (thread never released again, sockets reset), the pipeline sees the lost connection and is
    then ended by a dirty _exit as well"""
    import dawgie.db
    from worlds import store
    from worlds import store_io as sio

    sim = w.sim
    env.abandon_db()
    ch0 = core.Chooser(replay=[])
    w.ch = ch0
    env.reinit(sim, ch0)
    w._patch_observers()
    w.dir = dirk
    env.configure(dirk)
    w.planned = []
    w.stopped = False
    w.stop_on = set()
    w.imager = None
    dawgie.db.open()
    sio.install('all')
    sio.S.reset()
    sio.S.exdev = bool(w.cfg['exdev'])
    sio.S.crash_at = k
    cl = store.Client(w, 0, 'victim', [op])
    w.clients = [cl]

    def on_crash(side, label):
        sio.S.crash_at = None
        os.makedirs(dirk + '-img')
        copy_store(dirk, dirk + '-img')
        os.write(wfd, f'X{side}:{label}\n'.encode())
        if side == 'P':
            os._exit(137)
        th = core.current_thread()
        th.dead = True  # the client process is gone; the main thread resets its sockets at the end of this step
        th.park(label='crashed')

    sio.S.on_crash = on_crash
    w.acks_log = lambda it, isnew: os.write(wfd, b'A1\n' if isnew else b'A0\n')
    sim.after_step.append(w.after_step)
    sio.S.active = True
    cl.thread = sim.spawn('victim', lambda: w.client_main(cl))
    w.phase_start = sim.steps
    r = sim.run(until=lambda: not cl.alive, max_steps=sim.steps + 20000)
    w.after_step('end', '')
    w.drain()
    done = bool(cl.thread.done and not op.get('exc') and r == 'until')
    os.write(wfd, ('J' + json.dumps(dict(n=sio.S.count, done=done, exc=repr(op.get('exc')), r=r)) + '\n').encode())
    os._exit(0)  # dirty: nothing is closed or committed


def calibrate_real_kill(w):
    """one real fork + kill: the directory left behind by the dead process must equal, byte for byte, the
    image taken immediately before the step at which it was killed; the dead store is then judged like any
    other crash image"""
    import copy

    ch = w.ch
    op = w.gen_client_op(force='update')
    op['msv'] = False
    k = 1 + ch.choose('cal.k', 48)
    intents = w.intents_of(op)
    dk = f'{w.dir}-kill'
    shutil.rmtree(dk, ignore_errors=True)
    shutil.rmtree(dk + '-img', ignore_errors=True)
    for sub in ('db', 'dbs', 'stg', 'logs', 'fe', 'ae/vae'):
        os.makedirs(os.path.join(dk, sub))
    copy_store(w.dir, dk)
    try:
        code, data = fork_child(lambda fd: run_victim(w, op, dk, k, fd))
        acks, info, crash = parse_report(data)
        if crash is None:
            if info is None or not info['done']:
                raise core.HarnessError(f'calibration victim neither crashed nor completed: code={code} info={info}')
            w.probes['real_kill_after_last_step'] += 1
            return
        diff = same_tree(dk, dk + '-img')
        if diff:
            raise core.HarnessError(f'crash image taken before step {k} ({crash}) differs from what the real kill left: {diff}')
        w.probes['real_kill_equals_image'] += 1
        w.probes['real_kill_pipeline_side' if crash.startswith('P') else 'real_kill_worker_side'] += 1
        model = copy.deepcopy(w.model)
        saved_model, w.model = w.model, model
        try:
            for i, isnew in enumerate(acks):
                w.judge_novelty(intents[i], isnew)
                model.ack(intents[i])
        finally:
            w.model = saved_model
        if len(acks) < len(intents):
            model.maybe(intents[len(acks)])
        w.op(f'REAL KILL before I/O step {k} ({crash}) of a copy running [{w.describe(op)}]: {len(acks)} values acknowledged; '
             f'directory equals the crash image')
        w.crash_points += 1
        w.sim.log('realkill', f'{k}:{crash}:{len(acks)}')
        for v in check_image(w, dk, model):
            w.violate(v['property'], v['rule'], f"{v['signature']}@{side_name(crash)}",
                      f'real kill before I/O step {crash} of [{w.describe(op)}] after {len(acks)} acknowledged values: ' + v['message'], fatal=False)
    finally:
        shutil.rmtree(dk, ignore_errors=True)
        shutil.rmtree(dk + '-img', ignore_errors=True)


def enumerate_updates(w):
    """the enumerated phases: every I/O step of every update is a crash point"""
    cfg = w.cfg
    for _ in range(cfg['enum']):
        w.between()
        w.check_stop()
        w.imager = Imager(w)
        try:
            w.imager.arm()
            try:
                w.phase(mix=cfg['mix_enum'], max_clients=cfg['enum_clients'], msv=False, nops=cfg['enum_ops'])
            finally:
                w.imager.disarm()
            w.check_stop()
            w.imager.check_all()
        finally:
            w.imager.drop()  # whatever ended the phase: no image directory is left behind
            w.imager = None
        w.check_stop()
        w.check_all('after-enumerated-phase')
        w.check_stop()
    for _ in range(cfg['calibrate']):
        calibrate_real_kill(w)
        w.check_stop()
    if w.ch.flip('cal.real_kill', *cfg['real_kill']):
        calibrate_real_kill(w)
