"""W-LOCK: the database lock protocol only (DESIGN.md section 4, property C13).

real : dawgie.db.shelve.comms.Worker / DBSerializer (server side, on the simulated
       reactor), comms.acquire / comms.release / Connector (client side, in controlled
       threads on SimSocket), dawgie.pl.message.receive, dawgie.context.lock_db /
       unlock_db / db_lock, dawgie.db.lockview.TaskLockEngine, shelve DBI (open
       throughout), twisted LoopingCall / DelayedCall / Protocol.
stub : reactor, TCP, clock (sim kernel); dawgie.security.connect -> LockSocket
       (core.SimSocket with fault points); TLS = in-memory transport.

One seeded run = one generated scenario (1-6 clients, 1-3 rounds each of
acquire -> hold -> release, start phases, hold times, optional table read while
holding, optional release-without-acquire, optional database copy) executed several times:

  faults=False : `free_execs` fault-free executions with different interleavings;
  faults=True  : (1) one fault-free pass that records every client protocol point,
                 (2) one execution per (client, point, mode) with a disconnect injected
                     exactly there -- the interleaving up to the injection is the
                     recorded one (ForkChooser replays the prefix), afterwards it is
                     drawn fresh,
                 (3) `random_execs` executions with seeded multi-disconnects: at
                     protocol points and at arbitrary virtual times.

Client protocol points (class LockSocket): before each send, before each close, before a
recv that has to wait (`recv.wait`, i.e. right after the previous operation) and when
that recv is resumed with data or EOF (`recv.data`).  Disconnect modes:
  reset : the client process dies, both directions of all its connections die at once
          (data in flight is lost): thread never released again + SimConn.reset();
  fin   : the client process dies, data already sent is still delivered, the server sees
          the end of the stream after a chooser-chosen delay;
  drop  : (random phase only) the connection dies, the client process lives on and
          meets ConnectionResetError / EOF (message.receive spins on EOF: harness rule
          SimSocket.spin_check parks it for good, probe `client_spinning_on_eof`).

Round kind `copy`: the client calls the real Connector()._copy(dst, Method.connector).  The server
answers Func.dbcopy with deferToThread(Worker._do_copy): a pool thread of the SERVER (a controlled
thread of the simulated thread pool) calls the real comms.acquire('copy') over a socket to the server's
own database port, closes and re-opens the DBI (which replaces DBI().task_engine), copies, calls
comms.release() and answers the client.  That loop-back connection is a lock user like any other:
it is a waiter / holder in every oracle (tag `server-copy#n`); it is never killed (it is the server).
Harness patch: dawgie.db.shelve.util.make_staging_dir (os.system('mkdir ..')) is done in-process.

Everything the oracles use is observed: frames written to each server transport, the
requests handed to Worker.do, connectionLost as delivered by the simulated TCP, the
name-mangled Worker flags, dawgie.context.db_lock, and what acquire()/release()
returned in the client threads.
"""

import collections
import hashlib
import os
import pickle
import struct
import traceback

from sim import boot, core
from worlds import pipeenv

POLL = 3.0  # comms.Worker: LoopingCall.start(3)
EPS = 1e-6
PHASES = (0.0, 0.1, 1.0, 2.9, 3.0, 4.5, 7.0)
HOLDS = (0.0, 0.4, 1.0, 2.5, 3.0, 6.0)
GAPS = (0.0, 0.3, 2.0, 6.0)
NET_DELAYS = (0.0, 0.001, 0.05, 0.7, 2.0)
FIN_DELAYS = (0.0, 0.05, 0.7, 2.5)
DMAX = 2.5  # >= every network / FIN delay above
# upper bound of one server-side tenure: grant delivery + hold + table read while holding
# (request + answer) + release delivery; plus one poll period until the next grant
CYCLE = POLL + max(HOLDS) + 4 * DMAX + 0.5

DEFAULT_CFG = dict(prop='C13', faults=False, free_execs=3, random_execs=3, max_enum=70,
                   modes=('reset', 'fin'), max_clients=6, max_rounds=3, max_steps=6000, max_time=700.0,
                   stray=(1, 8), hold_io=(1, 4), copy=(1, 6))


class ForkChooser:
    """Replays the choices recorded in the fault-free pass until `switch()` (called at the
    injection), afterwards draws from the master chooser.  Same interface as core.Chooser."""

    def __init__(self, master, prefix):
        self.m, self.prefix, self.pos, self.live = master, prefix, 0, False
        self.diverged = False

    def switch(self):
        self.live = True

    def choose(self, kind, n):
        if n <= 1:
            return 0
        if not self.live:
            if self.pos < len(self.prefix):
                k, pn, v = self.prefix[self.pos]
                if pn == n and k == kind:
                    self.pos += 1
                    return v
            self.live = True
            self.diverged = True
        return self.m.choose(kind, n)

    def flip(self, kind, num, den):
        if num <= 0:
            return False
        if num >= den:
            return True
        return self.choose(kind, den) >= den - num

    def pick(self, kind, seq):
        return seq[self.choose(kind, len(seq))]


class Round:
    def __init__(self, kind, hold, gap, io):
        self.kind, self.hold, self.gap, self.io = kind, hold, gap, io

    def brief(self):
        if self.kind == 'stray':
            return f'stray-release gap={self.gap}'
        if self.kind == 'copy':
            return f'db-copy gap={self.gap}'
        return f'lock hold={self.hold}{" +table-read" if self.io else ""} gap={self.gap}'


class Client:
    def __init__(self, idx, phase, rounds):
        self.idx, self.phase, self.rounds = idx, phase, rounds
        self.reset()

    def reset(self):
        self.th = None
        self.socks = []
        self.npoints = 0
        self.points = []
        self.stage = 'idle'
        self.round = 0
        self.crashed = False
        self.gave_up = None
        self.acquired = 0
        self.finished = False

    def over(self):
        th = self.th
        return th is None or th.done or th.dead

    def brief(self):
        return f'c{self.idx}: start={self.phase} ' + ' | '.join(r.brief() for r in self.rounds)


class ServerSide:
    """owner of the loop-back connections that the server's own pool threads open (database copy)"""

    idx = -1
    crashed = False
    stage = 'server'
    round = 0


class ConnState:
    """what the harness has observed about one connection to the database port"""

    def __init__(self, cl, kind, tag):
        self.cl, self.kind, self.tag = cl, kind, tag
        self.buf = b''
        self.nparsed = 0
        self.acq_seen_at = None
        self.granted_at = None
        self.granted_step = -1
        self.ack_at = None
        self.grants = 0
        self.busy = 0
        self.last_reply_at = None
        self.release_seen = False
        self.ack = None
        self.lost_at = None
        self.deadline = None
        self.lost_reported = False
        self.through_copy = False  # was waiting while a database copy held the lock


class LockSocket(core.SimSocket):
    """dawgie.security.connect() of the client processes: SimSocket + protocol points"""

    def __init__(self, world, address):
        self.w = world
        self.cl = world.client_of_thread()
        self.conn = None
        self.kind = self.cl.stage if self.cl is not None else 'other'
        host = f'10.0.1.{self.cl.idx + 1}' if self.cl is not None else '10.0.1.99'
        core.SimSocket.__init__(self, world.sim, address, host=host)
        if self.cl is not None:
            self.cl.socks.append(self)
        world.on_connect(self)

    def _yield(self, label, pred=None):
        cl = self.cl
        if cl is None:
            return core.SimSocket._yield(self, label, pred)
        if label == 'connect':
            # nothing exists yet: dying before connect is indistinguishable from never starting
            return core.SimSocket._yield(self, label, pred)
        waited = False
        if label == 'recv':
            if self.buf:
                # continuing a message that is already here: process-local computation of the client,
                # commutes with everything else -- neither a protocol point nor a scheduling point
                return None
            waited = True
            self.w.point(self, 'recv.wait')
        core.SimSocket._yield(self, label, pred)
        self.w.point(self, 'recv.data' if waited else label)

    def close(self):
        if self.closed:
            return
        core.SimSocket.close(self)
        if self.cl is not None and self in self.cl.socks:
            self.cl.socks.remove(self)


_ORIG = {}


def _orig(owner, name):
    key = (owner.__module__, owner.__name__, name)
    if key not in _ORIG:
        _ORIG[key] = owner.__dict__[name]
    return _ORIG[key]


class Killer:
    """actor of the random phase: at chooser-chosen virtual times a chooser-chosen client
    dies (reset / fin) or loses its connections (drop), wherever it is"""

    def __init__(self, world, events):
        self.w, self.events = world, sorted(events)

    def next_time(self, now):
        return self.events[0][0] if self.events else None

    def enabled(self, now):
        if self.events and self.events[0][0] <= now + 1e-12:
            return [(f'kill.c{self.events[0][1]}.{self.events[0][2]}', self.fire)]
        return []

    def fire(self):
        _t, ci, mode = self.events.pop(0)
        cl = self.w.clients[ci]
        if cl.over() or cl.th is None:
            self.w.probes['timed_fault_on_finished_client'] += 1
            return
        if mode == 'drop':
            self.w.drop(cl, where='timed')
        else:
            self.w.crash(cl, mode, where='timed', in_thread=False)


class LockWorld:
    def __init__(self, ch, cfg):
        self.ch = ch
        self.cfg = dict(DEFAULT_CFG)
        self.cfg.update(cfg or {})
        self.sim = boot.setup()
        self.violations = []
        self.vcount = collections.Counter()
        self.probes = collections.Counter()
        self.faults = collections.Counter()
        self.kinds = collections.Counter()
        self.head = []  # scenario
        self.passlog = []  # detail of the first fault-free execution
        self.summaries = []  # one line per uneventful execution
        self.vlog = []  # detail of the execution that violated
        self.xops = []
        self.stopped = False
        self.steps = 0
        self.vtime = 0.0
        self.hash = hashlib.sha256()
        self.nexec = 0
        self.reordered = 0
        self.contended = 0
        self.dir = None
        self.plan = None
        self.clients = []
        self.cs = {}

    # -- reporting ---------------------------------------------------------
    def violate(self, rule, sig, msg):
        key = (rule, sig)
        self.vcount[key] += 1
        if self.vcount[key] > 1:
            return
        self.violations.append(dict(property='C13', rule=rule, signature=sig, message=f'[{self.plan["label"]}] {msg}',
                                    step=self.sim.steps, t=round(self.sim.now, 3)))
        self.xop(f'VIOLATION C13/{rule} {sig}: {msg}')
        # the run ends after this step (never raise through the code under test)
        self.stopped = True

    def op(self, text):
        if len(self.head) < 40:
            self.head.append(text)

    def assemble_ops(self):
        """<= 400 lines: scenario, first fault-free execution, the last uneventful executions, the violating one"""
        out = list(self.head) + self.passlog[:100]
        if len(self.summaries) > 40:
            out.append(f'... {len(self.summaries) - 40} uneventful executions not shown ...')
        out += self.summaries[-40:]
        out += self.vlog[-210:]
        return out[:400]

    def xop(self, text):
        line = f'[{self.sim.steps}@{self.sim.now:.3f}] {text}'
        self.sim.log('op', text)
        if len(self.xops) < 300:
            self.xops.append(line)

    # -- scenario ----------------------------------------------------------
    def generate(self):
        ch, cfg = self.ch, self.cfg
        n = 1 + ch.choose('gen.nclients', cfg['max_clients'])
        self.clients = []
        for i in range(n):
            phase = PHASES[ch.choose('gen.phase', len(PHASES))]
            rounds = []
            for _ in range(1 + ch.choose('gen.rounds', cfg['max_rounds'])):
                kind = 'stray' if ch.flip('gen.stray', *cfg['stray']) else 'lock'
                if kind == 'lock' and ch.flip('gen.copy', *cfg['copy']):
                    kind = 'copy'
                hold = HOLDS[ch.choose('gen.hold', len(HOLDS))]
                gap = GAPS[ch.choose('gen.gap', len(GAPS))]
                io = kind == 'lock' and ch.flip('gen.hold_io', *cfg['hold_io'])
                rounds.append(Round(kind, hold, gap, io))
            self.clients.append(Client(i, phase, rounds))
        if ch.choose('gen.net', 2):
            self.net = core.NetCfg(chunk=(1, 10), delay=(1, 4), coalesce=(1, 4), short_read=(1, 6), delays=NET_DELAYS)
            self.netname = 'chunks+delays+short-reads'
        else:
            self.net = core.NetCfg()
            self.netname = 'plain'
        self.op(f'scenario: {n} clients, net={self.netname}')
        for cl in self.clients:
            self.op('  ' + cl.brief())

    # -- environment ---------------------------------------------------------
    def setup_env(self):
        import dawgie.db
        import dawgie.db.shelve.comms as comms
        import dawgie.security

        pipeenv.reset_globals()
        self.sim.fresh(core.Chooser(replay=[]))
        boot.set_epoch(boot.EPOCH)
        boot._state['skew'] = 0.0
        self.dir = pipeenv.rundir()
        pipeenv.configure(self.dir, base='vae', tls=True)
        dawgie.db.open()
        w = self
        real_do = _orig(comms.Worker, 'do')

        def do(proto, request):
            try:
                ctxt = w.on_request(proto, request)
            except core.HarnessError:
                raise
            except Exception:  # noqa
                raise core.HarnessError('lock world, on_request: ' + traceback.format_exc()[-1500:])
            r = real_do(proto, request)
            try:
                w.on_request_done(proto, request, ctxt)
            except core.HarnessError:
                raise
            except Exception:  # noqa
                raise core.HarnessError('lock world, on_request_done: ' + traceback.format_exc()[-1500:])
            return r

        comms.Worker.do = do
        # the copy itself takes time (a large database: minutes); while it runs it must own the lock, however it got it
        from dawgie.db.shelve.state import DBI

        real_copy = _orig(DBI, 'copy')

        def copy(dbi):
            w.copy_running += 1
            w.probes['copy_body_entered'] += 1
            th = core.current_thread()
            d = [0.0, 0.5, 4.0, 9.0][w.sim.ch.choose('copy.duration', 4)]
            try:
                if th is not None and d:
                    w.probes['copy_body_takes_time'] += 1
                    th.park(until=w.sim.now + d, label='copy.body')
                return real_copy(dbi)
            finally:
                w.copy_running -= 1

        DBI.copy = copy
        dawgie.security.connect = lambda address: LockSocket(w, address)
        import dawgie.context as ctx
        import dawgie.db.shelve.util as shutil_

        def make_staging_dir():
            # the tree's version shells out to mkdir; same name, made in-process (unused by Method.connector)
            t = boot.now_dt()
            d = '%s/%d-%d-%dT%d:%d' % (ctx.data_stg, t.year, t.month, t.day, t.hour, t.minute)
            os.makedirs(d, exist_ok=True)
            return d

        shutil_.make_staging_dir = make_staging_dir

    def teardown_env(self):
        pipeenv.close_db()
        if self.dir:
            pipeenv.cleanup(self.dir)

    # -- one execution -------------------------------------------------------
    def begin(self, chooser, plan):
        import dawgie.context as ctx
        import dawgie.db.lockview as lockview
        import dawgie.db.shelve.comms as comms
        from dawgie.db.shelve.state import DBI

        sim = self.sim
        self.plan = plan
        sim.fresh(chooser, net=self.net)
        boot.set_epoch(boot.EPOCH)
        boot._state['skew'] = 0.0
        ctx.db_lock = False
        DBI()._DBI__task_engine = lockview.TaskLockEngine()
        comms.DBSerializer.open()
        sim.after_step.append(self.after_step)
        self.cs = {}
        self.xops = []
        self.free_since = 0.0
        self.injected = False
        self.xviol = len(self.violations)
        self.exec_contended = False
        self.nunhandled = 0
        self.nloop = 0
        self.copy_holds = False
        self.copy_running = 0
        for cl in self.clients:
            cl.reset()
        for cl in self.clients:
            cl.th = sim.spawn(f'c{cl.idx}', self.make_body(cl))
        if plan.get('kills'):
            sim.actors.append(Killer(self, plan['kills']))

    def make_body(self, cl):
        def body():
            try:
                self.client_main(cl)
                cl.finished = True
            except (ConnectionError, OSError) as e:
                # the client process gives up; its sockets close (end of stream at the server)
                cl.gave_up = repr(e)
                self.xop(f'c{cl.idx} gives up: {e!r}')
                self.probes['client_gave_up_on_connection_error'] += 1
                for s in list(cl.socks):
                    if s.conn is not None and not s.conn.client_gone:
                        s.conn.client_close()
            except core.ThreadKilled:
                raise
            except Exception as e:  # noqa
                cl.gave_up = repr(e)
                self.xop(f'c{cl.idx} died of an unexpected exception: {e!r}')
                self.probes['client_unexpected_exception'] += 1

        return body

    def client_main(self, cl):
        import dawgie.context as ctx
        import dawgie.db.shelve.comms as comms
        import dawgie.security
        from dawgie.db.shelve.enums import Method, Table

        sim, th = self.sim, core.current_thread()
        if cl.phase:
            th.park(until=sim.now + cl.phase, label='phase')
        for r, rd in enumerate(cl.rounds):
            cl.round = r
            if rd.kind == 'stray':
                cl.stage = 'stray'
                self.xop(f'c{cl.idx}.{r}: release() on a fresh connection, no acquire')
                self.probes['release_without_acquire'] += 1
                sock = dawgie.security.connect((ctx.db_host, ctx.db_port))
                ack = comms.release(sock)
                self.on_release_returned(cl, sock, ack, held=False)
            elif rd.kind == 'copy':
                cl.stage = 'copy'
                self.xop(f'c{cl.idx}.{r}: database copy requested')
                self.probes['copy_round'] += 1
                tables = comms.Connector()._copy(os.path.join(self.dir, 'copy'), Method.connector)
                self.xop(f'c{cl.idx}.{r}: database copy answered with {len(tables) if isinstance(tables, dict) else tables!r} tables')
                self.probes['copy_answered' if isinstance(tables, dict) else 'copy_answered_none'] += 1
            else:
                cl.stage = 'acquire'
                self.xop(f'c{cl.idx}.{r}: acquire()')
                sock = comms.acquire(f'c{cl.idx}.{r}')
                self.on_acquired(cl, sock)
                cl.stage = 'hold'
                if rd.io:
                    keys = comms.Connector().dbkeys(Table.target)
                    self.xop(f'c{cl.idx}.{r}: table read while holding -> {len(keys)} keys')
                    self.probes['table_read_while_holding'] += 1
                if rd.hold:
                    th.park(until=sim.now + rd.hold, label='hold')
                cl.stage = 'release'
                self.xop(f'c{cl.idx}.{r}: release()')
                ack = comms.release(sock)
                self.on_release_returned(cl, sock, ack, held=True)
            cl.stage = 'idle'
            if rd.gap:
                th.park(until=sim.now + rd.gap, label='gap')

    def all_over(self):
        # the clients and the server's own pool threads (a copy goes on when the client that asked for it died)
        return all(cl.over() for cl in self.clients) and all(th.done or th.dead for th in self.sim.threads)

    def drive(self):
        sim, cfg = self.sim, self.cfg
        while not self.stopped:
            if self.all_over():
                return 'done'
            if sim.steps >= cfg['max_steps']:
                return 'steps'
            if sim.now >= cfg['max_time']:
                return 'time'
            if not self.safe_step():
                if not self.jump_to_deadline():
                    return 'stuck'
        return 'stopped'

    def safe_step(self):
        """sim.step(); an exception escaping a reactor-side callback is handled as twisted does:
        logged, and for dataReceived the connection is dropped"""
        sim = self.sim
        try:
            return sim.step()
        except (core.HarnessError, core.Budget):
            raise
        except Exception as e:  # noqa
            kind, label = sim.in_step or ('?', '?')
            sim.in_step = None
            self.probes['reactor_exception'] += 1
            self.xop(f'reactor: exception in {kind} {label}: {e!r}')
            if kind == 'deliver' and label.endswith('c2s'):
                conn = sim.conns[int(label[:-3])]
                try:
                    conn.reset('proto_exception')
                except Exception as e2:  # noqa
                    self.xop(f'reactor: exception in connectionLost: {e2!r}')
            self.after_step(kind, label)
            return True

    def finish(self, how):
        """after the clients are over: let timers and pending ends of stream drain, final checks"""
        sim = self.sim
        if how == 'done' and not self.stopped:
            horizon = sim.now + DMAX + 2.0
            n = 0
            while not self.stopped and n < 400:
                t = sim.next_time()
                if not sim.enabled() and (t is None or t > horizon):
                    break
                if not self.safe_step():
                    break
                n += 1
            if not self.stopped:
                self.final_checks()
        elif how in ('steps', 'time', 'stuck'):
            self.probes['budget_' + how] += 1
            self.xop(f'execution ended by {how}')
        # reclaim the threads of this execution
        for th in sim.threads:
            if not th.done:
                th.dead = True
                th.sem.release()
                sim._main_sem.acquire()
        # accounting
        self.steps += sim.steps
        self.vtime += sim.now
        self.kinds.update(sim.kinds)
        for k, v in sim.counts.items():
            if k.startswith(('fault.', 'net.')):
                self.faults[k] += v
        self.reordered += sim.counts['sched.reordered']
        self.probes['client_spinning_on_eof'] += sim.counts['thread.spinning_on_eof']
        self.probes['reactor_exception'] += sim.counts['reactor.unhandled_error']
        if self.exec_contended:
            self.contended += 1
        self.hash.update(sim.digest().encode())
        self.nexec += 1
        plan = self.plan
        head = f'--- execution {plan["label"]} ({how}, {sim.steps} steps, {sim.now:.2f} s) ---'
        if len(self.violations) > self.xviol:
            self.vlog = [head] + ['  ' + l for l in self.xops[-200:]]
        elif plan['kind'] == 'free' and plan['index'] == 0:
            self.passlog = [head] + ['  ' + l for l in self.xops]
        elif how in ('steps', 'time', 'stuck'):
            self.summaries.append(f'--- execution {plan["label"]}: BUDGET {how}, {sim.steps} steps, {sim.now:.2f} s; last operations:')
            self.summaries += ['  ' + l for l in self.xops[-8:]]
        else:
            self.summaries.append(f'--- execution {plan["label"]}: {how}, {sim.steps} steps, {sim.now:.2f} s, ok')

    def execute(self, chooser, plan):
        self.begin(chooser, plan)
        how = self.drive()
        self.finish(how)
        return how

    # -- observation -----------------------------------------------------------
    def client_of_thread(self):
        th = core.current_thread()
        for cl in self.clients:
            if cl.th is th:
                return cl
        return None

    def on_connect(self, sock):
        cl = sock.cl
        if sock.conn is None:
            return
        if cl is None:
            th = core.current_thread()
            if th is not None and th.name.startswith('pool-'):
                self.nloop += 1
                st = ConnState(ServerSide(), 'lock', f'server-copy#{self.nloop}')
                st.loopback = True
                self.cs[sock.conn.cid] = st
                self.probes['copy_loopback_connection'] += 1
            return
        kind = {'acquire': 'lock', 'stray': 'stray', 'hold': 'io', 'copy': 'copy'}.get(cl.stage, 'other')
        tag = f'c{cl.idx}.{cl.round}' + ('' if kind == 'lock' else f'/{kind}')
        self.cs[sock.conn.cid] = ConnState(cl, kind, tag)

    def conn_of(self, proto):
        for c in self.sim.conns:
            if c.proto is proto:
                return c
        return None

    def holders(self):
        return [c.cid for c in self.sim.conns if getattr(c.proto, '_Worker__has_lock', False)]

    def on_request(self, proto, request):
        import dawgie.context as ctx
        from dawgie.db.shelve.enums import Func

        conn = self.conn_of(proto)
        st = self.cs.get(conn.cid) if conn is not None else None
        if st is None:
            return None
        if request.func == Func.acquire:
            st.acq_seen_at = self.sim.now
            self.xop(f'server: acquire from {st.tag} (lock is {"held" if ctx.db_lock else "free"})')
            if ctx.db_lock:
                self.exec_contended = True
                self.probes['acquire_while_held'] += 1
            self.disturbance()
            return None
        if request.func == Func.dbcopy:
            self.xop(f'server: copy request from {st.tag}')
            self.probes['copy_request_seen'] += 1
            return None
        if request.func == Func.release:
            st.release_seen = True
            return dict(st=st, conn=conn, held=bool(getattr(proto, '_Worker__has_lock', False)),
                        H=self.holders(), L=bool(ctx.db_lock))
        return None

    def on_request_done(self, proto, request, c):
        import dawgie.context as ctx
        from dawgie.db.shelve.enums import Func

        if c is None or request.func != Func.release:
            return
        st = c['st']
        H, L = self.holders(), bool(ctx.db_lock)
        if c['held']:
            self.xop(f'server: release from {st.tag} (holder)')
            # a holder that releases no longer holds, and the lock is free (clause "holders release")
            if c['conn'].cid in H or L:
                self.violate('release_ignored', 'holder_still_holds' if c['conn'].cid in H else 'still_locked',
                             f'{st.tag} held the lock and sent release; afterwards holders={self.tags(H)} db_lock={L}')
        else:
            self.xop(f'server: release from {st.tag} which does not hold the lock')
            self.probes['release_by_non_holder'] += 1
            if c['H']:
                self.probes['release_by_non_holder_while_held'] += 1
            # a release by a client that does not hold the lock must not take it from the one that does
            if H != c['H'] or L != c['L']:
                self.violate('release_by_non_holder_changed_lock', 'unlocked' if c['L'] and not L else 'other',
                             f'{st.tag} does not hold the lock and sent release; holders {self.tags(c["H"])}->{self.tags(H)} '
                             f'db_lock {c["L"]}->{L}')

    def tags(self, cids):
        return [self.cs[c].tag if c in self.cs else f'conn{c}' for c in cids]

    def parse_written(self, conn, st):
        from dawgie.db.shelve.enums import Mutex

        wr = conn.transport.written
        while st.nparsed < len(wr):
            st.buf += wr[st.nparsed]
            st.nparsed += 1
        while len(st.buf) >= 4:
            n = struct.unpack('>I', st.buf[:4])[0]
            if len(st.buf) < 4 + n:
                break
            raw, st.buf = st.buf[4:4 + n], st.buf[4 + n:]
            try:
                obj = pickle.loads(raw)
            except Exception:  # noqa
                continue
            now = self.sim.now
            if isinstance(obj, Mutex):
                st.last_reply_at = now
                if obj == Mutex.unlock:
                    st.grants += 1
                    if st.granted_at is None:
                        st.granted_at = now
                        st.granted_step = self.sim.steps
                    self.xop(f'server: tells {st.tag} the lock is its (after {st.busy} busy answers)')
                    self.probes['grant'] += 1
                    if st.busy:
                        self.probes['grant_after_waiting'] += 1
                    if st.cl.crashed:
                        self.probes['grant_to_client_that_already_died_unnoticed'] += 1
                    if self.copy_running and not getattr(st, 'loopback', False):
                        self.violate('granted_during_copy', 'client',
                                     f'{st.tag} is told the lock is its while a database copy is running (the copy must own the lock from before its first read to after its last)')
                    if getattr(st, 'loopback', False):
                        self.probes['copy_took_lock'] += 1
                        if st.busy:
                            self.probes['copy_took_lock_after_waiting'] += 1
                        others = [o for o in self.cs.values()
                                  if o is not st and o.acq_seen_at is not None and o.granted_at is None and o.lost_at is None]
                        for o in others:
                            o.through_copy = True
                        if others:
                            self.probes['copy_took_lock_while_others_wait'] += 1
                    elif st.through_copy:
                        self.probes['waiter_told_after_copy'] += 1
                else:
                    st.busy += 1
                    self.probes['busy_answer'] += 1
            elif isinstance(obj, bool) and st.release_seen:
                st.ack = obj
                st.ack_at = now

    def after_step(self, kind, label):
        try:
            self._after_step(kind, label)
        except core.HarnessError:
            raise
        except Exception:  # noqa
            raise core.HarnessError('lock world oracle: ' + traceback.format_exc()[-2000:])

    # ------------------------------------------------------------------------------------------
    # The oracles of C13, evaluated after EVERY simulator step (plus on_request_done, on_acquired,
    # final_checks).  Server-side vocabulary, all observed:
    #   H = connections whose Worker has __has_lock        L = dawgie.context.db_lock
    #   T = connections that were sent Mutex.unlock, were not yet answered True to a release and
    #       whose connectionLost has not been delivered ("told it holds the lock")
    #   W = connections whose acquire request reached Worker.do, not yet told, connection up ("waiting")
    # Rules and the clause of the statement they decide:
    #   two_holders, two_told                 "at most one client holds the lock at any time"
    #   told_without_holding (T subset of H), client_believes_without_holding (acquire() returned
    #       on an intact connection that is not the owner)   "told it holds the lock only when it does"
    #   dropped_connection_holds_lock         "a client whose connection drops releases the lock if it held
    #       it [in the step that delivers connectionLost] and abandons its request if it was waiting
    #       [never owns the lock afterwards]"
    #   free_lock_not_granted                 "whenever the lock is free some waiting client is granted it at
    #       its next poll": T empty and some w in W continuously for more than one poll period (3 s + 1e-6)
    #   waiter_starved                        "no waiter starves once holders release or die": bound
    #       (|W|+1) x CYCLE counted from the last new acquire seen by the server / last injected fault
    #   lock_leaked_at_end                    every client released or died and every end of stream was
    #       delivered, yet somebody owns the lock or the bit is set
    #   lock_bit_mismatch, release_ignored, release_by_non_holder_changed_lock: state invariants asked for
    #       by the brief (db_lock <=> exactly one owner; a release by the owner frees, by anybody else changes
    #       nothing).  They are not sentences of the statement; each breach has a continuation that breaks
    #       one (bit clear with an owner -> the next acquire makes two holders; bit set without an owner ->
    #       every later waiter starves), and the signature says which way round.
    # Deliberate leniencies:
    #   * an owner that was never told (H not subset of T) is not a safety violation (only its consequences are);
    #   * acquire()/release() returning on a connection that has already dropped under a living client
    #     (random phase, mode drop) is not judged: the grant was true when it was sent;
    #   * the answer to release (True/False) is counted (probe release_answer_unexpected), not judged;
    #   * liveness is judged from the server's point of view: a client that died but whose end of stream
    #     has not arrived yet still counts as waiting/holding (the server cannot know better), and the
    #     starvation bound restarts at every new acquire ("once holders release or die" / no new contender);
    #   * exceptions escaping server callbacks, clients spinning on EOF, timers left over are probes only.
    # ------------------------------------------------------------------------------------------
    def _after_step(self, kind, label):
        import dawgie.context as ctx

        sim, now = self.sim, self.sim.now
        unh = getattr(sim, 'unhandled', [])
        while self.nunhandled < len(unh):
            # the kernel handles an exception that escapes a reactor callback as twisted does (log, go on)
            self.xop(f'reactor: unhandled exception {unh[self.nunhandled][1:]}')
            self.nunhandled += 1
        H = []
        for conn in sim.conns:
            st = self.cs.get(conn.cid)
            if st is None:
                continue
            self.parse_written(conn, st)
            first_loss = conn.server_gone and st.lost_at is None
            if first_loss:
                st.lost_at = now
                self.xop(f'server: connection of {st.tag} lost')
                if st.acq_seen_at is not None and st.granted_at is None:
                    self.probes['waiter_connection_lost'] += 1
                if st.granted_at is not None and st.ack is None:
                    self.probes['holder_connection_lost'] += 1
            has = bool(getattr(conn.proto, '_Worker__has_lock', False))
            if has:
                H.append(conn.cid)
            # (3) a connection that dropped holds nothing: released in the step of the loss if it held,
            # never granted afterwards if it waited
            if has and conn.server_gone and not st.lost_reported:
                st.lost_reported = True
                self.violate('dropped_connection_holds_lock', 'not_released_on_loss' if first_loss else 'granted_after_loss',
                             f'connection of {st.tag} was lost at {st.lost_at:.3f} and owns the lock at {now:.3f} '
                             f'(told at {st.granted_at if st.granted_at is not None else "never"})')
        L = bool(ctx.db_lock)
        # (1) at most one holder; the lock bit says the same
        if self.copy_running and not L:
            self.violate('copy_without_lock', 'lock_bit_clear', 'a database copy is running and the lock is free: any client may be granted it under the copy')
        if len(H) > 1:
            self.violate('two_holders', f'n={len(H)}', f'connections {self.tags(H)} own the lock at the same time')
        elif L != (len(H) == 1):
            self.violate('lock_bit_mismatch', 'locked_without_holder' if L else 'holder_without_lock_bit',
                         f'db_lock={L} but holders={self.tags(H)}')
        # (2) told it holds the lock only when it does.  T = told, not yet released, connection alive
        T = [cid for cid, st in self.cs.items() if st.granted_at is not None and st.ack is not True and st.lost_at is None]
        for cid in T:
            if cid not in H:
                st = self.cs[cid]
                self.violate('told_without_holding', 'at_grant' if getattr(st, 'granted_step', -1) == sim.steps else 'later',
                             f'{st.tag} was told the lock is its at {st.granted_at:.3f} and has not released, '
                             f'but does not own it (holders={self.tags(H)}, db_lock={L})')
        if len(T) > 1:
            self.violate('two_told', f'n={len(T)}', f'{self.tags(T)} have all been told they hold the lock and none released or dropped')
        if len(T) > 0:
            self.free_since = None
        elif self.free_since is None:
            self.free_since = now
        # (4) bounded liveness
        W = [st for st in self.cs.values() if st.acq_seen_at is not None and st.granted_at is None and st.lost_at is None]
        if self.free_since is not None:
            for st in W:
                t0 = max(self.free_since, st.acq_seen_at)
                if now > t0 + POLL + EPS:
                    polled = st.last_reply_at is not None and st.last_reply_at > t0 + EPS
                    silent = [o.tag for cid, o in self.cs.items() if cid in H and o.granted_at is None]
                    sig = 'owner_never_told' if silent else ('poll_answered_busy' if polled else 'waiter_not_polled')
                    self.violate('free_lock_not_granted', sig,
                                 f'nobody has been holding the lock (told, not released, connected) since {self.free_since:.3f}, {st.tag} has '
                                 f'been waiting since {st.acq_seen_at:.3f} with its connection up, and at {now:.3f} (> one poll period) nobody '
                                 f'was told the lock is its; last answer to {st.tag} at {st.last_reply_at}; server-side owners now '
                                 f'{self.tags(H)} (never told: {silent}), db_lock={L}')
                    break
        for st in W:
            if st.deadline is not None and now > st.deadline + EPS:
                self.violate('waiter_starved', 'deadline',
                             f'{st.tag} waiting since {st.acq_seen_at:.3f}, no new acquire and no fault since the deadline was set, '
                             f'still not granted at {now:.3f} (deadline {st.deadline:.3f})')
                break

    def disturbance(self):
        """a new acquire reached the server, or a fault was injected: the starvation bound restarts
        (statement: 'once holders release or die'; bound: waiters x (max tenure + poll period))"""
        W = [st for st in self.cs.values() if st.acq_seen_at is not None and st.granted_at is None and st.lost_at is None]
        for st in W:
            st.deadline = self.sim.now + (len(W) + 1) * CYCLE

    def jump_to_deadline(self):
        """nothing can happen any more but clients are not over: let virtual time pass to the next
        liveness deadline so that a starved waiter is reported instead of passing by silence"""
        sim = self.sim
        W = [st for st in self.cs.values() if st.acq_seen_at is not None and st.granted_at is None and st.lost_at is None]
        ts = [st.deadline for st in W if st.deadline is not None]
        if self.free_since is not None:
            ts += [max(self.free_since, st.acq_seen_at) + POLL for st in W]
        ts = [t for t in ts if t + 3 * EPS > sim.now]
        if not ts:
            self.probes['client_blocked_forever_not_a_waiter'] += 1
            return False
        sim.now = min(ts) + 3 * EPS
        self.xop('nothing is scheduled any more; virtual time passes')
        self.after_step('jump', '')
        return not self.stopped and bool(sim.enabled() or sim.next_time() is not None)

    # client-side observations
    def on_acquired(self, cl, sock):
        import dawgie.context as ctx

        conn = sock.conn
        st = self.cs.get(conn.cid)
        cl.acquired += 1
        self.probes['acquire_returned'] += 1
        if sock.eof or sock.was_reset or conn.client_gone or conn.server_gone:
            # leniency: the connection is already gone; the client reads a grant that was true when sent
            self.probes['acquire_returned_on_dead_connection'] += 1
            self.xop(f'c{cl.idx}.{cl.round}: acquire() returned on a connection that is already gone')
            return
        self.xop(f'c{cl.idx}.{cl.round}: acquire() returned')
        has = bool(getattr(conn.proto, '_Worker__has_lock', False))
        if not has or not ctx.db_lock:
            self.violate('client_believes_without_holding', 'no_owner_flag' if not has else 'lock_bit_clear',
                         f'acquire() of {st.tag if st else conn.cid} returned while its connection owns={has}, db_lock={bool(ctx.db_lock)}')

    def on_release_returned(self, cl, sock, ack, held):
        self.probes['release_returned'] += 1
        if sock.was_reset:
            # leniency: the connection dropped under a living client; whatever it read is not judged
            return
        self.xop(f'c{cl.idx}.{cl.round}: release() returned {ack!r}')
        # the statement says nothing about the answer to release: counted, not judged
        if (held and ack is not True) or (not held and ack is not False):
            self.probes['release_answer_unexpected'] += 1

    def final_checks(self):
        import dawgie.context as ctx

        H, L = self.holders(), bool(ctx.db_lock)
        # every client has released or died and every end of stream was delivered: the lock is free
        undelivered = [c.cid for c in self.sim.conns if not c.server_gone]
        if undelivered:
            self.probes['final_connection_still_open'] += 1
            return
        if H or L:
            self.violate('lock_leaked_at_end', 'holder' if H else 'lock_bit',
                         f'all clients released or died, all connections are closed, but holders={self.tags(H)} db_lock={L}')
        self.probes['final_state_checked'] += 1
        for cl in self.clients:
            if cl.finished:
                self.probes['client_completed_all_rounds'] += 1
        if self.sim.timers:
            self.probes['timers_left_after_drain'] += 1

    # -- faults ----------------------------------------------------------------
    def point(self, sock, label):
        cl = sock.cl
        full = f'{label}:{cl.stage}'
        k = cl.npoints
        cl.npoints += 1
        cl.points.append(full)
        plan = self.plan
        inj = plan.get('inject')
        if inj is not None:
            if inj[0] == cl.idx and inj[1] == k:
                if inj[3] != full:
                    raise core.HarnessError(f'lock world: injection point {inj} reached as {full}: prefix replay diverged')
                self.crash(cl, inj[2], where=f'{full}#{k}', in_thread=True)
            return
        rate = plan.get('rate')
        if rate and not cl.crashed and self.sim.ch.flip('fault.at_point', 1, rate):
            mode = ('reset', 'fin', 'drop')[self.sim.ch.choose('fault.mode', 3)]
            if mode == 'drop':
                self.drop(cl, where=f'{full}#{k}')
            else:
                self.crash(cl, mode, where=f'{full}#{k}', in_thread=True)

    def crash(self, cl, mode, where, in_thread):
        sim = self.sim
        cl.crashed = True
        cl.th.dead = True
        self.injected = True
        if isinstance(sim.ch, ForkChooser):
            sim.ch.switch()
        sim.count(f'fault.client_dies_{mode}')
        self.classify_fault(cl, mode)
        self.xop(f'FAULT c{cl.idx}.{cl.round} dies ({mode}) at {where}, stage {cl.stage}')
        for s in list(cl.socks):
            conn = s.conn
            if conn is None or conn.client_gone:
                continue
            if mode == 'reset':
                try:
                    conn.reset('reset')
                except (core.HarnessError, core.ThreadKilled):
                    raise
                except Exception as e:  # noqa
                    self.probes['reactor_exception'] += 1
                    self.xop(f'reactor: exception in connectionLost: {e!r}')
            else:
                delay = FIN_DELAYS[sim.ch.choose('fault.fin_delay', len(FIN_DELAYS))]
                conn.client_gone = True
                conn.enqueue('c2s', core.EOF, delay)
        self.disturbance()
        if in_thread:
            cl.th.park(label='crashed')  # never released again

    def drop(self, cl, where):
        sim = self.sim
        live = [s for s in cl.socks if s.conn is not None and not s.conn.client_gone]
        if not live:
            return
        self.injected = True
        if isinstance(sim.ch, ForkChooser):
            sim.ch.switch()
        sim.count('fault.connection_drops_client_lives')
        self.classify_fault(cl, 'drop')
        self.xop(f'FAULT connection(s) of c{cl.idx}.{cl.round} drop at {where}, stage {cl.stage}; the client lives on')
        for s in live:
            s.conn.reset('reset')
        self.disturbance()

    def classify_fault(self, cl, mode):
        """probes: in which protocol state of the victim (as the server sees it) did the fault strike"""
        state = 'no_connection'
        for s in cl.socks:
            st = self.cs.get(s.conn.cid) if s.conn is not None else None
            if st is None or st.kind != 'lock':
                if st is not None and state == 'no_connection':
                    state = 'copy_client' if st.kind == 'copy' else 'other_connection'
                continue
            if st.ack is not None or st.release_seen:
                state = 'released'
            elif st.granted_at is not None:
                state = 'holder_told_unread' if cl.stage == 'acquire' else 'holder'
            elif st.acq_seen_at is not None:
                state = 'waiter'
            elif s.conn.q['c2s']:
                state = 'acquire_in_flight'
            else:
                state = 'connected_nothing_sent'
        self.probes[f'disconnect_of_{state}'] += 1
        if state == 'holder_told_unread':
            self.probes['disconnect_while_granted_unreported'] += 1

    # -- the run -----------------------------------------------------------------
    def run(self):
        ch, cfg = self.ch, self.cfg
        try:
            self.generate()
            self.setup_env()
            if not cfg['faults']:
                for i in range(cfg['free_execs']):
                    if self.stopped:
                        break
                    self.execute(ch, dict(kind='free', index=i, label=f'fault-free #{i}'))
            else:
                self.run_enumeration()
        finally:
            self.teardown_env()
        return self.result()

    def run_enumeration(self):
        ch, cfg = self.ch, self.cfg
        start = len(ch.rec)
        how = self.execute(ch, dict(kind='free', index=0, label='fault-free pass'))
        prefix = list(ch.rec[start:])
        pass_time = self.sim.now
        if self.stopped:
            return
        if how != 'done':
            self.probes['enumeration_skipped_pass_not_done'] += 1
            return
        positions = []
        for cl in self.clients:
            for k, lab in enumerate(cl.points):
                self.probes['protocol_points'] += 1
                for mode in cfg['modes']:
                    # `recv.wait` is reached in the same scheduler step as the point before it (reading a message that
                    # has arrived is process-local).  reset there = reset at the point before (data just sent is discarded
                    # with the connection); fin there differs from the point before only if that was a send (the data
                    # sent is delivered ahead of the end of stream).  Indistinguishable positions are not executed twice.
                    if lab.startswith('recv.wait') and (mode == 'reset' or k == 0 or not cl.points[k - 1].startswith('send')):
                        self.probes['positions_equivalent_to_previous_not_repeated'] += 1
                        continue
                    positions.append((cl.idx, k, mode, lab))
        if len(positions) > cfg['max_enum']:
            # keep a chooser-chosen subset (order preserved); value 0 keeps the first ones
            keep = []
            pool = list(range(len(positions)))
            for _ in range(cfg['max_enum']):
                keep.append(pool.pop(ch.choose('enum.subset', len(pool))))
            self.probes['enumerated_positions_skipped_by_cap'] += len(positions) - len(keep)
            positions = [positions[i] for i in sorted(keep)]
        for pos in positions:
            if self.stopped:
                return
            fork = ForkChooser(ch, prefix)
            self.execute(fork, dict(kind='enum', index=0, inject=pos, label=f'disconnect c{pos[0]} at point {pos[1]} ({pos[3]}) mode {pos[2]}'))
            if not self.injected and not self.stopped:
                raise core.HarnessError(f'lock world: enumerated position {pos} was not reached (diverged={fork.diverged})')
            self.probes['enumerated_positions'] += 1
            self.probes['enumerated_' + pos[3].replace(':', '_').replace('.', '_')] += 1
        horizon = max(5.0, min(60.0, pass_time))
        for i in range(cfg['random_execs']):
            if self.stopped:
                return
            kills = []
            for _ in range(ch.choose('rand.nkills', 4)):
                t = 0.25 * ch.choose('rand.kill_time', int(horizon * 4))
                kills.append((t, ch.choose('rand.kill_client', len(self.clients)), ('reset', 'fin', 'drop')[ch.choose('rand.kill_mode', 3)]))
            rate = (0, 40, 15, 6)[ch.choose('rand.point_rate', 4)]
            self.execute(ch, dict(kind='random', index=i, rate=rate, kills=kills,
                                  label=f'random disconnects #{i} (timed={[(t, f"c{c}", m) for t, c, m in sorted(kills)]}, per-point 1/{rate})'))
            self.probes['random_executions'] += 1

    def result(self):
        nfaults = sum(v for k, v in self.faults.items() if k.startswith('fault.'))
        nontrivial = self.contended > 0 and self.reordered > 0 and (nfaults > 0 or not self.cfg['faults'])
        return dict(violations=self.violations, probes={k: v for k, v in self.probes.items() if v}, faults=dict(self.faults),
                    steps=self.steps, vtime=round(self.vtime, 3), digest=self.hash.hexdigest()[:24], nontrivial=bool(nontrivial),
                    kinds=dict(self.kinds), executions=self.nexec, sample=self.assemble_ops()[:60], ops=self.assemble_ops())


def _pin_to_one_cpu():
    """Only one thread of a simulation process ever runs at a time (baton passing), and this world hands the baton
    over ~100 times per execution.  Letting the kernel spread those threads over the cores makes every hand-over a
    cross-core wake-up (measured: 2.4x the wall time, sys > user).  The run server and the children it forks are
    therefore pinned to one CPU.  Servers running at the same time claim different CPUs (a claim is a file
    /dev/shm/verif-pin/cpuN holding the pid, created atomically by link(); claims of dead processes are taken over);
    when every CPU is claimed the process is left unpinned.  No effect on what a run computes.  VERIF_PIN=0 turns it off."""
    import atexit
    import os

    if os.environ.get('VERIF_PIN', '1') == '0':
        return None
    try:
        cpus = sorted(os.sched_getaffinity(0))
        if len(cpus) < 2:
            return None
        d = '/dev/shm/verif-pin'
        os.makedirs(d, exist_ok=True)
        me = os.getpid()
        tmp = f'{d}/.claim-{me}'
        with open(tmp, 'w') as f:
            f.write(str(me))
        try:
            for k in range(len(cpus)):
                cpu = cpus[(me + k) % len(cpus)]
                path = f'{d}/cpu{cpu}'
                for _attempt in (0, 1):
                    try:
                        os.link(tmp, path)
                    except FileExistsError:
                        try:
                            with open(path) as f:
                                owner = int(f.read().strip() or '0')
                            os.kill(owner, 0)
                            break  # claimed by a live process: next CPU
                        except (ValueError, ProcessLookupError, FileNotFoundError):
                            try:
                                os.unlink(path)  # stale claim
                            except FileNotFoundError:
                                pass
                            continue
                        except PermissionError:
                            break
                    else:
                        os.sched_setaffinity(0, {cpu})

                        def release(path=path, me=me):
                            try:
                                if os.getpid() == me:
                                    os.unlink(path)
                            except OSError:
                                pass

                        atexit.register(release)
                        return cpu
        finally:
            try:
                os.unlink(tmp)
            except OSError:
                pass
    except (AttributeError, OSError):
        pass
    return None


def warmup():
    _pin_to_one_cpu()
    boot.setup()
    import dawgie.db.shelve.comms  # noqa
    import dawgie.db.lockview  # noqa

    return True


def run(ch, cfg):
    return LockWorld(ch, cfg).run()
