"""Generated algorithm engines (DESIGN.md section 3) and the reference
evaluator.  The spec is plain data; `Engine` materialises it in memory,
`write_disk` writes it as source packages."""

import hashlib
import sys
import types

import dawgie

PKG_NAMES = ['a', 'ab', 'abc', 'a_', 'a1', 'b', 'bc', 'c']
ALG_NAMES = ['A', 'AB', 'ABC', 'A_', 'B', 'Bx', 'C']
SV_NAMES = ['sv', 'sv2', 's', 'x', 'x_']
VAL_NAMES = ['v', 'v2', 'w', 'x', 'x_']
KINDS = ['task', 'task', 'task', 'analysis', 'regress']


class AlgSpec:
    def __init__(self, pkg, name, kind, ver, svs, inputs, feedback=None, where='cluster'):
        self.where = where  # what Algorithm.where() answers: cluster | auto | cloud
        self.pkg, self.name, self.kind, self.ver = pkg, name, kind, tuple(ver)
        self.svs = svs  # [(svname, ver, [(vname, ver), ...]), ...]
        self.inputs = inputs  # [(alg_full, level, svname|None, vname|None)]
        self.feedback = feedback or []

    @property
    def full(self):
        return f'{self.pkg}.{self.name}'

    def values(self):
        """full value names this algorithm declares"""
        return [f'{self.full}.{sv}.{v}' for sv, _sver, vals in self.svs for v, _vv in vals]

    def to_json(self):
        return {'pkg': self.pkg, 'name': self.name, 'kind': self.kind, 'ver': list(self.ver),
                'svs': [[s, list(v), [[n, list(vv)] for n, vv in vals]] for s, v, vals in self.svs],
                'inputs': [list(i) for i in self.inputs], 'feedback': [list(i) for i in self.feedback], 'where': self.where}

    @staticmethod
    def from_json(d):
        return AlgSpec(d['pkg'], d['name'], d['kind'], d['ver'],
                       [(s, tuple(v), [(n, tuple(vv)) for n, vv in vals]) for s, v, vals in d['svs']],
                       [tuple(i) for i in d['inputs']], [tuple(i) for i in d['feedback']], d.get('where', 'cluster'))


class Spec:
    def __init__(self, algs, events=None, base='vae'):
        self.algs = algs  # topological order
        self.events = events or []  # [(alg_full, kind, arg, (h,m,s))]
        self.base = base
        self.helpers = {}  # pkg -> [names of helper modules its bot imports] (only matters for on-disk engines)
        self.by = {a.full: a for a in algs}

    @property
    def pkgs(self):
        out = []
        for a in self.algs:
            if a.pkg not in out:
                out.append(a.pkg)
        return out

    def to_json(self):
        return {'algs': [a.to_json() for a in self.algs], 'events': [list(e) for e in self.events], 'base': self.base,
                'helpers': {k: list(v) for k, v in self.helpers.items()}}

    @staticmethod
    def from_json(d):
        sp = Spec([AlgSpec.from_json(a) for a in d['algs']], [tuple(e) for e in d['events']], d.get('base', 'vae'))
        sp.helpers = {k: list(v) for k, v in (d.get('helpers') or {}).items()}
        return sp

    def brief(self):
        out = []
        for a in self.algs:
            ins = ','.join(f'{i[0]}' + (f'.{i[2]}' if i[2] else '') + (f'.{i[3]}' if i[3] else '') for i in a.inputs)
            fb = ','.join(f'~{i[0]}.{i[2]}' + (f'.{i[3]}' if i[3] else '') for i in a.feedback)
            out.append(f'{a.full}[{a.kind[0]}]({ins}{";" + fb if fb else ""})')
        return ' '.join(out)


def _ver(ch, kind):
    return (1 + ch.choose(kind, 2), ch.choose(kind, 3), ch.choose(kind, 2))


def generate(ch, max_pkgs=4, max_algs=3, max_total=8, feedback=True, events=False,
             kinds=KINDS, max_svs=2, max_vals=2, max_inputs=3, self_refs=False):
    """draw an acyclic engine spec from the chooser"""
    npkg = 1 + ch.choose('gen.npkg', max_pkgs)
    pool = list(PKG_NAMES)
    pkgs = []
    for _ in range(npkg):
        pkgs.append(pool.pop(ch.choose('gen.pkgname', len(pool))))
    slots = []  # (pkg, algname, kind)
    for p in pkgs:
        n = 1 + ch.choose('gen.nalg', max_algs)
        apool = list(ALG_NAMES)
        for _ in range(n):
            if len(slots) >= max_total:
                break
            slots.append((p, apool.pop(ch.choose('gen.algname', len(apool))),
                          kinds[ch.choose('gen.kind', len(kinds))]))
    # random topological order = a chooser-chosen permutation of the slots
    order = []
    rest = list(slots)
    while rest:
        order.append(rest.pop(ch.choose('gen.order', len(rest))))
    algs = []
    for p, an, kind in order:
        nsv = 1 + ch.choose('gen.nsv', max_svs)
        spool = list(SV_NAMES)
        svs = []
        for _ in range(nsv):
            sn = spool.pop(ch.choose('gen.svname', len(spool)))
            nv = 1 + ch.choose('gen.nval', max_vals)
            vpool = list(VAL_NAMES)
            vals = []
            for _ in range(nv):
                vals.append((vpool.pop(ch.choose('gen.valname', len(vpool))), _ver(ch, 'gen.vver')))
            svs.append((sn, _ver(ch, 'gen.svver'), vals))
        inputs = []
        if algs:
            nin = ch.choose('gen.nin', max_inputs + 1)
            for _ in range(nin):
                y = algs[ch.choose('gen.inalg', len(algs))]
                lvl = ch.choose('gen.inlevel', 3)
                ysv = y.svs[ch.choose('gen.insv', len(y.svs))]
                if lvl == 0:
                    ref = (y.full, 'alg', None, None)
                elif lvl == 1:
                    ref = (y.full, 'sv', ysv[0], None)
                else:
                    ref = (y.full, 'val', ysv[0], ysv[2][ch.choose('gen.inval', len(ysv[2]))][0])
                if ref not in inputs:
                    inputs.append(ref)
        if self_refs and kind == 'task' and inputs and ch.flip('gen.selfref', 1, 3):
            # an algorithm that also reads one of its own values from its last run (Test/ae/feedback's Control does):
            # no ordering edge, no trigger - an algorithm neither waits for nor re-runs because of itself
            ysv = svs[ch.choose('gen.selfsv', len(svs))]
            inputs.append((f'{p}.{an}', 'val', ysv[0], ysv[2][ch.choose('gen.selfval', len(ysv[2]))][0]))
        algs.append(AlgSpec(p, an, kind, _ver(ch, 'gen.aver'), svs, inputs,
                            where=['cluster', 'cluster', 'auto', 'auto', 'cloud'][ch.choose('gen.where', 5)]))
    if feedback:
        fed = set()
        for i, a in enumerate(algs[:-1]):
            if ch.flip('gen.feedback', 1, 6):
                y = algs[i + 1 + ch.choose('gen.fbalg', len(algs) - i - 1)]
                ysv = y.svs[ch.choose('gen.fbsv', len(y.svs))]
                val = ysv[2][ch.choose('gen.fbval', len(ysv[2]))][0]
                name = f'{y.full}.{ysv[0]}.{val}'
                if name not in fed:  # at most one consumer per fed-back value
                    fed.add(name)
                    a.feedback.append((y.full, 'val', ysv[0], val))
    evs = []
    if events:
        nev = ch.choose('gen.nev', 4)
        for _ in range(nev):
            a = algs[ch.choose('gen.evalg', len(algs))]
            k = ch.choose('gen.evkind', 4)
            tod = (ch.choose('gen.evh', 24), ch.choose('gen.evm', 60), ch.choose('gen.evs', 60))
            if k == 0:
                evs.append((a.full, 'boot', True, None))
            elif k == 1:
                evs.append((a.full, 'dow', ch.choose('gen.dow', 7), tod))
            elif k == 2:
                evs.append((a.full, 'dom', 1 + ch.choose('gen.dom', 31), tod))
            else:
                evs.append((a.full, 'day', (2024 + ch.choose('gen.y', 3), 1 + ch.choose('gen.mo', 12), 1 + ch.choose('gen.d', 28)), tod))
    return Spec(algs, evs)


# --------------------------------------------------------------------------
# reference evaluator: never looks at dag.Construct
# --------------------------------------------------------------------------


class Ref:
    def __init__(self, spec):
        self.spec = spec
        self.kind = {a.full: a.kind for a in spec.algs}
        self.values = {a.full: a.values() for a in spec.algs}
        self.owner = {v: a.full for a in spec.algs for v in a.values()}
        self.inputs = {}  # alg -> set of full value names it declares as input
        self.fb_inputs = {}
        for a in spec.algs:
            self.inputs[a.full] = self._expand(a.inputs)
            self.fb_inputs[a.full] = self._expand(a.feedback)
        self.parents = {a.full: {self.owner[v] for v in self.inputs[a.full]} - {a.full} for a in spec.algs}
        self.children = {a.full: set() for a in spec.algs}
        for x, ps in self.parents.items():
            for p in ps:
                self.children[p].add(x)
        self.anc = {x: self._closure(x, self.parents) for x in self.parents}
        self.desc = {x: self._closure(x, self.children) for x in self.parents}
        self.feedbacks = {}  # fed-back value -> consumer alg
        for a in spec.algs:
            for v in self.fb_inputs[a.full]:
                self.feedbacks[v] = a.full
        self.level = {}
        for a in spec.algs:
            self.level[a.full] = 1 + max([self.level[p] for p in self.parents[a.full]], default=-1)

    def _expand(self, refs):
        out = set()
        for full, lvl, sv, val in refs:
            y = self.spec.by[full]
            for s, _sv, vals in y.svs:
                if lvl != 'alg' and s != sv:
                    continue
                for v, _vv in vals:
                    if lvl == 'val' and v != val:
                        continue
                    out.add(f'{full}.{s}.{v}')
        return out

    @staticmethod
    def _closure(x, rel):
        seen, todo = set(), list(rel[x])
        while todo:
            y = todo.pop()
            if y not in seen:
                seen.add(y)
                todo.extend(rel[y])
        return seen

    def consumers(self, value_names):
        """algorithms that declare any of the given values as (non feedback) input"""
        vs = set(value_names)
        return {x for x, ins in self.inputs.items() if ins & vs}

    def edges(self, depth):
        """declared edges at algorithm(2)/state-vector(3)/value(4)/task(1) granularity"""
        out = set()
        for x, ins in self.inputs.items():
            for v in ins:
                for mine in self.values[x]:
                    s = '.'.join(v.split('.')[:depth])
                    d = '.'.join(mine.split('.')[:depth])
                    if s != d:
                        out.add((s, d))
        return out


# --------------------------------------------------------------------------
# in-memory materialisation
# --------------------------------------------------------------------------


class GenValue(dawgie.Value):
    VER = (1, 0, 0)

    def __init__(self, content=None, ver=None):
        dawgie.Value.__init__(self)
        self._version_ = dawgie.VERSION(*(ver or self.VER))
        self.content = content

    def features(self):
        return []


class GenSV(dawgie.StateVector):
    def __init__(self, name='sv', ver=(1, 0, 0), vals=(), vclass=None):
        dawgie.StateVector.__init__(self)
        self._name = name
        self._version_ = dawgie.VERSION(*ver)
        for vn, vv in vals:
            cls = vclass(vn) if vclass else GenValue
            self[vn] = cls(None, vv) if cls is GenValue else cls()

    def name(self):
        return self._name

    def view(self, caller, visitor):
        visitor.add_primitive(str({k: getattr(v, 'content', None) for k, v in self.items()}))


class _AlgMixin:
    def _setup(self, eng, aspec):
        self.eng, self.a = eng, aspec
        self._version_ = dawgie.VERSION(*aspec.ver)
        self._svs = [GenSV(s, sv, vals, vclass=eng.vclass(aspec.full, s)) for s, sv, vals in aspec.svs]
        self._impls = {}

    def name(self):
        return self.a.name

    def state_vectors(self):
        return self._svs

    def _impl(self, full):
        if full not in self._impls:
            self._impls[full] = self.eng.make_alg(self.eng.spec.by[full])
        return self._impls[full]

    def _refs(self, refs):
        out = []
        for full, lvl, sv, val in refs:
            y = self.eng.spec.by[full]
            fac = self.eng.factory(y.pkg, y.kind)
            impl = self._impl(full)
            if lvl == 'alg':
                out.append(dawgie.ALG_REF(fac, impl))
            else:
                item = impl.sv_as_dict()[sv]
                if lvl == 'sv':
                    out.append(dawgie.SV_REF(fac, impl, item))
                else:
                    out.append(dawgie.V_REF(fac, impl, item, val))
        return out

    def feedback(self):
        return self._refs(self.a.feedback)

    def _inputs(self):
        return self._refs(self.a.inputs)

    def where(self):
        return {'cluster': dawgie.Distribution.cluster, 'auto': dawgie.Distribution.auto, 'cloud': dawgie.Distribution.cloud}[getattr(self.a, 'where', 'cluster')]


class GenAlgorithm(_AlgMixin, dawgie.Algorithm):
    def __init__(self, eng, aspec):
        dawgie.Algorithm.__init__(self)
        self._setup(eng, aspec)

    def previous(self):
        return self._inputs()

    def run(self, ds, ps):
        self.eng.behaviour(self, ds, 'task')


class GenAnalyzer(_AlgMixin, dawgie.Analyzer):
    def __init__(self, eng, aspec):
        dawgie.Analyzer.__init__(self)
        self._setup(eng, aspec)

    def traits(self):
        return self._inputs()

    def run(self, aspects):
        self.eng.behaviour(self, aspects, 'analysis')


class GenRegression(_AlgMixin, dawgie.Regression):
    def __init__(self, eng, aspec):
        dawgie.Regression.__init__(self)
        self._setup(eng, aspec)

    def variables(self):
        return self._inputs()

    def run(self, ps, timeline):
        self.eng.behaviour(self, timeline, 'regress')


class GenTask(dawgie.Task):
    def __init__(self, eng, pkg, name, ps_hint, runid, target):
        dawgie.Task.__init__(self, name, ps_hint, runid, target)
        self._eng, self._pkg = eng, pkg

    def list(self):
        return [GenAlgorithm(self._eng, a) for a in self._eng.spec.algs if a.pkg == self._pkg and a.kind == 'task']


class GenAnalysis(dawgie.Analysis):
    def __init__(self, eng, pkg, name, ps_hint, runid):
        dawgie.Analysis.__init__(self, name, ps_hint, runid)
        self._eng, self._pkg = eng, pkg

    def list(self):
        return [GenAnalyzer(self._eng, a) for a in self._eng.spec.algs if a.pkg == self._pkg and a.kind == 'analysis']


class GenRegress(dawgie.Regress):
    def __init__(self, eng, pkg, name, ps_hint, target):
        dawgie.Regress.__init__(self, name, ps_hint, target)
        self._eng, self._pkg = eng, pkg

    def list(self):
        return [GenRegression(self._eng, a) for a in self._eng.spec.algs if a.pkg == self._pkg and a.kind == 'regress']


_ALGCLS = {'task': GenAlgorithm, 'analysis': GenAnalyzer, 'regress': GenRegression}


class Engine:
    """in-memory, explicit factories"""

    def __init__(self, spec, behaviour=None):
        self.spec = spec
        self.base = spec.base
        self._fac = {}
        self._vcls = {}
        self.behaviour = behaviour or (lambda alg, ds, kind: None)
        self.modules = {}
        self._build()

    def vclass(self, alg_full, svname):
        return None

    def make_alg(self, aspec):
        return _ALGCLS[aspec.kind](self, aspec)

    def factory(self, pkg, kind):
        return self._fac[(pkg, kind)]

    def _build(self):
        eng, base = self, self.base
        parts = base.split('.')
        parent = None
        for i in range(1, len(parts)):  # a dotted base package (proj.ae): its parents exist as packages too
            m = types.ModuleType('.'.join(parts[:i]))
            m.__path__ = []
            self.modules[m.__name__] = m
            if parent is not None:
                setattr(parent, parts[i - 1], m)
            parent = m
        root = types.ModuleType(base)
        root.__path__ = []
        self.modules[base] = root
        if parent is not None:
            setattr(parent, parts[-1], root)
        for pkg in self.spec.pkgs:
            mod = types.ModuleType(f'{base}.{pkg}')
            mod.__path__ = []
            kinds = {a.kind for a in self.spec.algs if a.pkg == pkg}

            def task(prefix, ps_hint=0, runid=-1, target='__none__', _p=pkg):
                return GenTask(eng, _p, prefix, ps_hint, runid, target)

            def analysis(prefix, ps_hint=0, runid=-1, _p=pkg):
                return GenAnalysis(eng, _p, prefix, ps_hint, runid)

            def regress(prefix, ps_hint=0, target='__none__', _p=pkg):
                return GenRegress(eng, _p, prefix, ps_hint, target)

            for f in (task, analysis, regress):
                f.__module__ = mod.__name__
                if f.__name__ in kinds:
                    setattr(mod, f.__name__, f)
                    self._fac[(pkg, f.__name__)] = f
            evs = [e for e in self.spec.events if self.spec.by[e[0]].pkg == pkg]
            if evs:
                def events(_evs=evs):
                    import datetime

                    out = []
                    for full, k, arg, tod in _evs:
                        a = eng.spec.by[full]
                        kw = {}
                        if k == 'boot':
                            kw['boot'] = True
                        elif k == 'dow':
                            kw['dow'] = arg
                        elif k == 'dom':
                            kw['dom'] = arg
                        else:
                            kw['day'] = datetime.date(*arg)
                        if tod is not None:
                            kw['time'] = datetime.time(*tod)
                        out.append(dawgie.schedule(eng.factory(a.pkg, a.kind), eng.make_alg(a), **kw))
                    return out

                events.__module__ = mod.__name__
                mod.events = events
            self.modules[mod.__name__] = mod
            setattr(root, pkg, mod)

    def install(self):
        """make importlib.import_module('vae.<pkg>') find the modules"""
        for k in [k for k in sys.modules if k == self.base or k.startswith(self.base + '.')]:
            del sys.modules[k]
        sys.modules.update(self.modules)

    def factories(self, order=None):
        """the table scan.for_factories would return"""
        pk = list(self.spec.pkgs)
        if order is not None:
            pk = [pk[i] for i in order]
        out = {e: [] for e in dawgie.Factories}
        for p in pk:
            mod = self.modules[f'{self.base}.{p}']
            for e in dawgie.Factories:
                if hasattr(mod, e.name):
                    out[e].append(getattr(mod, e.name))
        return out


def content_hash(*parts):
    return hashlib.sha256(repr(parts).encode()).hexdigest()[:16]


def _bump(ver, ch, kind):
    d, i, b = ver
    k = ch.choose(kind, 3)
    return (d, i, b + 1) if k == 0 else ((d, i + 1, 0) if k == 1 else (d + 1, 0, 0))


def evolve(ch, spec, max_total=8, graph_edits=True):
    """a software update: a new Spec with some versions bumped and, optionally, the
    declared inputs edited or an algorithm added (names of existing things never change)"""
    new = Spec.from_json(spec.to_json())
    algs = new.algs
    nedit = 1 + ch.choose('evo.nedit', 3)
    log = []
    for _ in range(nedit):
        kinds = ['alg', 'sv', 'val', 'none', 'revert']
        if graph_edits:
            kinds += ['add_input', 'del_input', 'add_alg', 'new_module']
        k = kinds[ch.choose('evo.kind', len(kinds))]
        a = algs[ch.choose('evo.alg', len(algs))]
        if k == 'revert':
            # roll one algorithm back to a release it had before (its version and those of its state vectors and values)
            hist = [h for h in getattr(spec, 'history', []) if a.full in h]
            if hist:
                old = AlgSpec.from_json(hist[ch.choose('evo.revert', len(hist))][a.full])
                if (old.ver, old.svs) != (a.ver, a.svs) and [s[0] for s in old.svs] == [s[0] for s in a.svs]:
                    a.ver, a.svs = old.ver, old.svs
                    log.append(f'{a.full} rolled back to {a.ver}')
        elif k == 'alg':
            a.ver = _bump(a.ver, ch, 'evo.bump')
            log.append(f'{a.full} -> {a.ver}')
        elif k == 'sv':
            i = ch.choose('evo.sv', len(a.svs))
            s, v, vals = a.svs[i]
            a.svs[i] = (s, _bump(v, ch, 'evo.bump'), vals)
            log.append(f'{a.full}.{s} -> {a.svs[i][1]}')
        elif k == 'val':
            i = ch.choose('evo.sv', len(a.svs))
            s, v, vals = a.svs[i]
            j = ch.choose('evo.val', len(vals))
            vals = list(vals)
            vals[j] = (vals[j][0], _bump(vals[j][1], ch, 'evo.bump'))
            a.svs[i] = (s, v, vals)
            log.append(f'{a.full}.{s}.{vals[j][0]} -> {vals[j][1]}')
        elif k == 'new_module':
            names = new.helpers.setdefault(a.pkg, [])
            names.append(f'helper_{len(names) + 1}')
            log.append(f'{a.pkg}.bot now imports the new module {a.pkg}.{names[-1]}')
        elif k == 'add_input':
            pos = algs.index(a)
            if pos > 0:
                y = algs[ch.choose('evo.inalg', pos)]
                ysv = y.svs[ch.choose('evo.insv', len(y.svs))]
                lvl = ch.choose('evo.inlevel', 3)
                ref = ((y.full, 'alg', None, None) if lvl == 0 else (y.full, 'sv', ysv[0], None) if lvl == 1
                       else (y.full, 'val', ysv[0], ysv[2][ch.choose('evo.inval', len(ysv[2]))][0]))
                if ref not in a.inputs:
                    a.inputs.append(ref)
                    log.append(f'{a.full} += input {ref}')
        elif k == 'del_input':
            if a.inputs:
                r = a.inputs.pop(ch.choose('evo.delin', len(a.inputs)))
                log.append(f'{a.full} -= input {r}')
        elif k == 'add_alg' and len(algs) < max_total:
            pkg = new.pkgs[ch.choose('evo.pkg', len(new.pkgs))]
            used = {x.name for x in algs if x.pkg == pkg}
            pool = [n for n in ALG_NAMES if n not in used]
            if pool:
                kind = KINDS[ch.choose('evo.newkind', len(KINDS))]
                y = algs[ch.choose('evo.inalg', len(algs))]
                ysv = y.svs[0]
                na = AlgSpec(pkg, pool[ch.choose('evo.newname', len(pool))], kind, (1, 0, 0),
                             [('sv', (1, 0, 0), [('v', (1, 0, 0))])], [(y.full, 'sv', ysv[0], None)])
                algs.append(na)
                log.append(f'new algorithm {na.full}[{kind[0]}]({y.full}.{ysv[0]})')
    out = Spec(algs, new.events, new.base)
    out.helpers = new.helpers
    out.change_log = log
    out.history = list(getattr(spec, 'history', [])) + [{x.full: x.to_json() for x in spec.algs}]
    return out


def unrecorded(spec, versions):
    """reference for C15: algorithms whose own version, or that of any of their state vectors or
    values, is not among the persisted versions (`versions` = what dawgie.db.versions() returned)"""
    _t, av, sv, vv = versions
    out = set()
    for a in spec.algs:
        s = lambda v: '.'.join(str(x) for x in v)  # noqa: E731
        miss = s(a.ver) not in av.get(a.full, [])
        for svn, svver, vals in a.svs:
            miss = miss or s(svver) not in sv.get(f'{a.full}.{svn}', [])
            for vn, vver in vals:
                miss = miss or s(vver) not in vv.get(f'{a.full}.{svn}.{vn}', [])
        if miss:
            out.add(a.full)
    return out


# --------------------------------------------------------------------------
# on-disk materialisation: explicit factories, bots extending the deprecated dawgie.Task family
# --------------------------------------------------------------------------


def _cls(*parts):
    return '_'.join(p.replace('.', '_') for p in parts)


def _ref_src(base, ref, spec, mod='bot'):
    full, lvl, sv, val = ref
    y = spec.by[full]
    fac = f'{base}.{y.pkg}.{y.kind}'
    impl = f'{base}.{y.pkg}.{mod}.{_cls("Alg", y.name)}()'
    if lvl == 'alg':
        return f'dawgie.ALG_REF({fac}, {impl})'
    if lvl == 'sv':
        return f'(lambda i: dawgie.SV_REF({fac}, i, i.sv_as_dict()[{sv!r}]))({impl})'
    return f'(lambda i: dawgie.V_REF({fac}, i, i.sv_as_dict()[{sv!r}], {val!r}))({impl})'


def package_sources(spec, pkg, style='explicit'):
    """(source of <pkg>/__init__.py, source of <pkg>/bot.py) for one package of the spec.
    style 'explicit': factory functions in __init__.py and bots extending the deprecated dawgie.Task family;
    style 'auto': no factories and no bots - the classes are found through __init_subclass__ (dawgie.base pattern)"""
    base = spec.base
    mod = 'bot' if style == 'explicit' else 'algs'
    algs = [a for a in spec.algs if a.pkg == pkg]
    kinds = sorted({a.kind for a in algs})
    init = ['import dawgie', f'import {base}.{pkg}.bot', '', ''] if style == 'explicit' else ['"""auto-registered package"""', '']
    sig = {'task': "prefix, ps_hint=0, runid=-1, target='__none__'", 'analysis': 'prefix, ps_hint=0, runid=-1', 'regress': "prefix, ps_hint=0, target='__none__'"}
    call = {'task': 'Actor(prefix, ps_hint, runid, target)', 'analysis': 'Agent(prefix, ps_hint, runid)', 'regress': 'Regr(prefix, ps_hint, target)'}
    for k in kinds if style == 'explicit' else []:
        init += [f'def {k}({sig[k]}):', f'    return {base}.{pkg}.bot.{call[k]}', '', '']
    evs = [e for e in spec.events if spec.by[e[0]].pkg == pkg]
    if evs and style == 'explicit':
        init += ['def events():', '    import datetime', '    return [']
        for full, k, arg, tod in evs:
            a = spec.by[full]
            kw = {'boot': 'boot=True', 'dow': f'dow={arg}', 'dom': f'dom={arg}', 'day': f'day=datetime.date{tuple(arg) if k == "day" else ""}'}[k]
            if tod is not None:
                kw += f', time=datetime.time{tuple(tod)}'
            init += [f'        dawgie.schedule({a.kind}, {base}.{pkg}.bot.{_cls("Alg", a.name)}(), {kw}),']
        init += ['    ]', '']
    bot = ['import dawgie'] + [f'import {base}.{pkg}.{h}' for h in spec.helpers.get(pkg, [])] + ['', '']
    base_cls = {'task': 'dawgie.Algorithm', 'analysis': 'dawgie.Analyzer', 'regress': 'dawgie.Regression'}
    dep = {'task': 'previous', 'analysis': 'traits', 'regress': 'variables'}
    run_sig = {'task': 'ds, ps', 'analysis': 'aspects', 'regress': 'ps, timeline'}
    others = sorted({spec.by[r[0]].pkg for a in algs for r in list(a.inputs) + list(a.feedback)})
    imports = [f'        import {base}.{o}', f'        import {base}.{o}.bot' ] if False else None
    for a in algs:
        for svn, svver, vals in a.svs:
            for vn, vver in vals:
                c = _cls('Val', a.name, svn, vn)
                bot += [f'class {c}(dawgie.Value):', '    def __init__(self, content=None):', '        dawgie.Value.__init__(self)',
                        f'        self._version_ = dawgie.VERSION{tuple(vver)}', '        self.content = content', '',
                        '    def features(self):', '        return []', '', '']
            c = _cls('SV', a.name, svn)
            bot += [f'class {c}(dawgie.StateVector):', '    def __init__(self):', '        dawgie.StateVector.__init__(self)',
                    f'        self._version_ = dawgie.VERSION{tuple(svver)}']
            for vn, _vv in vals:
                bot += [f'        self[{vn!r}] = {_cls("Val", a.name, svn, vn)}()']
            bot += ['', '    def name(self):', f'        return {svn!r}', '', '    def view(self, caller, visitor):', "        visitor.add_primitive('generated')", '', '']
        c = _cls('Alg', a.name)
        bot += [f'class {c}({base_cls[a.kind]}):', '    def __init__(self):', f'        self._version_ = dawgie.VERSION{tuple(a.ver)}',
                f'        self._svs = [{", ".join(_cls("SV", a.name, s[0]) + "()" for s in a.svs)}]', '',
                '    def name(self):', f'        return {a.name!r}', '', '    def state_vectors(self):', '        return self._svs', '']
        for meth, refs in ((dep[a.kind], a.inputs), ('feedback', a.feedback)):
            bot += [f'    def {meth}(self):']
            for o in sorted({spec.by[r[0]].pkg for r in refs}):
                bot += [f'        import {base}.{o}', f'        import {base}.{o}.{mod}']
            bot += ['        return [' + ', '.join(_ref_src(base, r, spec, mod) for r in refs) + ']', '']
        bot += [f'    def run(self, {run_sig[a.kind]}):', '        return None', '',
                '    def where(self):', f'        return dawgie.Distribution.{getattr(a, "where", "cluster")}', '', '']
    for kind, bcls, parent in (('task', 'Actor', 'dawgie.Task'), ('analysis', 'Agent', 'dawgie.Analysis'), ('regress', 'Regr', 'dawgie.Regress')):
        if kind in kinds and style == 'explicit':
            bot += [f'class {bcls}({parent}):', '    def list(self):',
                    '        return [' + ', '.join(_cls('Alg', a.name) + '()' for a in algs if a.kind == kind) + ']', '', '']
    return '\n'.join(init), '\n'.join(bot)


def write_disk(spec, root, only=None, style='explicit'):
    """write the engine as source packages under <root>/<base>/...; `only` = packages to (re)write"""
    import os

    top = os.path.join(root, *spec.base.split('.'))
    os.makedirs(top, exist_ok=True)
    d_ = root
    for part in spec.base.split('.'):
        d_ = os.path.join(d_, part)
        p = os.path.join(d_, '__init__.py')
        if not os.path.exists(p):
            open(p, 'w').close()
    written = []
    for pkg in spec.pkgs:
        if only is not None and pkg not in only:
            continue
        d = os.path.join(top, pkg)
        os.makedirs(d, exist_ok=True)
        init, bot = package_sources(spec, pkg, style)
        files = [('__init__.py', init), ('bot.py' if style == 'explicit' else 'algs.py', bot)] + [(f'{h}.py', f'NAME = {h!r}\n') for h in spec.helpers.get(pkg, [])]
        for name, src in files:
            fp = os.path.join(d, name)
            old = open(fp).read() if os.path.exists(fp) else None
            if old != src:
                with open(fp, 'w') as f:
                    f.write(src)
                written.append(f'{pkg}/{name}')
    return written
