"""W-PIPE plus life-cycle stimuli: submissions through the real front end (both endpoints) with a scripted git
and a compliance sub-process actor, resets, archive-raising results, injected not-allowed triggers.
Decides C10 (life cycle) and C12 (submission takes effect exactly when its priority allows).

Everything of worlds/pipe.py stays in force (scheduler/farm ground truth G); this module adds
  * SimFSM: the real FSM with a recording `state` property (every assignment is an observed transition),
  * Submitter/Process actors, FakeGit,
  * the reference automaton and the C10/C12 oracles.
"""

import collections
import json
import os

from sim import boot, core
from worlds import aegen, http, pipe, pipeenv

ALL = pipe.ALL

# reference automaton, transcribed from the documentation of the life cycle (state.dot labels):
#   start -boot-> loading -introspect-> navel gazing -run-> running
#   running -submit-> gitting -staged-> running
#   running -idle+new data-> archiving -run-> running
#   running -update-> updating -new data-> archiving -done-> updating -refresh-> loading
EDGES = {
    ('starting', 'loading'), ('loading', 'contemplation'), ('contemplation', 'running'),
    ('running', 'gitting'), ('gitting', 'running'),
    ('running', 'archiving'), ('archiving', 'running'),
    ('running', 'updating'), ('updating', 'loading'), ('updating', 'archiving'), ('archiving', 'updating'),
}
TRIGGERS = {
    'starting_trigger': {'starting'}, 'contemplation_trigger': {'loading'}, 'running_trigger': {'contemplation', 'gitting', 'archiving'},
    'gitting_trigger': {'running'}, 'archiving_trigger': {'running', 'updating'}, 'update_trigger': {'running'},
    'loading_trigger': {'updating'}, 'updating_trigger': {'archiving'},
}
BACKGROUND = ('_pipeline', '_reload', '_archive', '_navel_gaze')
PRIO = {'now': 3, 'crew_idle': 2, 'doing_empty': 1, 'todo_empty': 0}
PRIO_NAMES = ['todo_empty', 'doing_empty', 'crew_idle', 'now']


class FakeGitCmd:
    """what dawgie.tools.submit sees as git.cmd.Git(repo)"""

    world = None

    def __init__(self, repo):
        self.repo = repo

    def execute(self, cmd):
        import git

        w = FakeGitCmd.world
        line = ' '.join(cmd)
        sub = w.current_submission or {}
        if line == 'git log':
            return '\n'.join(f'commit {c}' for c in w.git_history)
        if line == 'git rev-parse HEAD':
            return sub.get('head', sub.get('changeset', 'none'))
        if sub.get('git_fails_at') is not None:
            sub['git_n'] = sub.get('git_n', 0) + 1
            if sub['git_n'] == sub['git_fails_at']:
                w.sim.count('fault.git_command_fails')
                raise git.exc.GitCommandError(cmd, 1)
        if line.startswith('git rebase') and line.endswith(w.ops_branch):
            # the operational branch now is at the changeset
            w.git_history.append(sub.get('changeset', 'none'))
            os.environ['DAWGIE_DOCKERIZED_AE_GIT_REVISION'] = sub.get('changeset', 'none')
        return ''


class ProcActor:
    """the compliance sub-process: exit time and status are chooser decisions"""

    def __init__(self, world):
        self.w = world
        self.plan = {}

    def _plan(self, p):
        if id(p) not in self.plan:
            ch = self.w.ch
            delay = self.w.proc_delays[ch.choose('proc.delay', len(self.w.proc_delays))]
            code = 1 if ch.flip('proc.fails', 1, 5) else 0
            if code and ch.flip('proc.killed', 1, 3):
                code = -9  # ended by a signal (operator, out-of-memory killer): twisted reports exitCode None
            self.plan[id(p)] = (self.w.sim.now + delay, code)
            self.w.op(f'compliance process started: will exit {code} at +{delay}')
        return self.plan[id(p)]

    def next_time(self, now):
        ts = [self._plan(p)[0] for p in self.w.sim.processes if p.alive]
        return min(ts) if ts else None

    def enabled(self, now):
        out = []
        for p in self.w.sim.processes:
            if p.alive and self._plan(p)[0] <= now + 1e-12:
                out.append(('proc.exit', lambda p=p: self.exit(p)))
        return out

    def exit(self, p):
        code = self._plan(p)[1]
        self.w.op(f'compliance process exits {code}')
        self.w.probes['compliance_exit_%s' % (code if code >= 0 else 'signal')] += 1
        p.exit(code)


class FsmWorld(pipe.PipeWorld):
    def __init__(self, ch, cfg):
        base = dict(max_steps=2500, events=10, workers=3,
                    mix=dict(run=4, rerun_executing=0, add_target=1, run_all=1, run_empty=0, update=0,
                             submit=5, reset=1, bad_trigger=2))
        base.update(cfg or {})
        super().__init__(ch, base)
        self.delays = [0.01, 0.3, 1.0, 4.0, 6.0, 30.0]
        self.gaps = [0.0, 0.1, 0.5, 1.0, 3.0, 7.0, 20.0]
        self.proc_delays = self.cfg.get('proc_delays') or [0.0, 0.1, 1.0, 5.0, 12.0, 40.0]
        self.git_history = ['rev0']
        self.current_submission = None
        self.ops_branch = 'ops'
        self.transitions = []  # (step, src, dst)
        self.cycle = None
        self.cause = None
        self.nsub = 0
        self.http_pending = []
        self.reloads = 0
        self.pending_liveness = None

    # -- construction ----------------------------------------------------------
    def build(self):
        import dawgie.context as ctx
        import dawgie.pl.state as state
        import dawgie.tools.submit as tsub
        import git

        super().build()
        # fault 'slow reactor': the callback of a finished background step (deferToThread) may reach the reactor a
        # little late - other events slip in between a poll and its callback (most runs: no delay)
        self.sim.cb_delays = self.cfg.get('cb_delays', [0, 0, 0, 0.05, 0.3])
        # line-level pre-emption of the background steps (pool threads): between two lines of the life-cycle, farm,
        # scheduler and submit modules a step may lose the processor to the reactor (a few times per thread)
        if self.cfg.get('preempt', True):
            self.sim.preempt = dict(files=('dawgie/pl/state.py', 'dawgie/pl/farm.py', 'dawgie/pl/schedule.py', 'dawgie/fe/api/submit.py',
                                           'dawgie/fe/submit.py', 'dawgie/tools/submit.py', 'dawgie/pl/scan.py'), rate=(1, 12), max=4)
        # opening and closing the database is file I/O: a background step may be held up right there, and the reactor
        # goes on meanwhile (the only pre-emption points inside pool-thread bodies; there is no line-level pre-emption)
        import dawgie.db

        w = self

        def slow(real, label, before):
            def call(*a, **k):
                def wait():
                    th = core.current_thread()
                    if th is not None and not getattr(th, 'worker', False):
                        d = [0, 0, 0.01, 0.5][w.ch.choose('io.' + label, 4)]
                        if d:
                            w.sim.count('fault.slow_io_' + label)
                            th.park(until=w.sim.now + d, label='io.' + label)
                if before:
                    wait()
                try:
                    return real(*a, **k)
                finally:
                    if not before:
                        wait()
            return call

        # (the archive step calls reopen() and close() back to back; the wait comes after the close so that the
        # window between the two - microseconds in reality - is not blown up into a state of its own)
        dawgie.db.open = slow(pipe._orig(dawgie.db, 'open'), 'db_open', True)
        dawgie.db.close = slow(pipe._orig(dawgie.db, 'close'), 'db_close', False)
        os.makedirs(os.path.join(self.dir, 'ae', '.git'), exist_ok=True)
        ctx.ae_repository_branch_ops = self.ops_branch
        ctx.ae_repository_branch_stable = 'stable'
        ctx.ae_repository_branch_test = 'test'
        ctx.ae_repository_remote = 'origin'
        FakeGitCmd.world = self
        git.cmd.Git = FakeGitCmd
        w = self

        class SimFSM(state.FSM):
            @property
            def state(self):
                return self.__dict__.get('_sim_state', 'starting')

            @state.setter
            def state(self, value):
                old = self.__dict__.get('_sim_state')
                self.__dict__['_sim_state'] = value
                if old is not None and old != value:
                    w.on_transition(old, value)

        # dawgie.context.dumps() leaves the FSM out of the pickled context by the *name* of its type
        SimFSM.__module__, SimFSM.__qualname__, SimFSM.__name__ = state.FSM.__module__, state.FSM.__qualname__, state.FSM.__name__
        self.fsm_cls = SimFSM
        real_ssi = pipe._orig(state.FSM, 'set_submit_info')

        def set_submit_info(fsm, changeset, priority):
            r = real_ssi(fsm, changeset, priority)
            w.on_submission_accepted(changeset, priority)
            return r

        state.FSM.set_submit_info = set_submit_info
        self.by_changeset = {}
        for name in ('automatic', 'already_applied'):
            real = pipe._orig(tsub, name)

            def scoped(*a, _real=real, **k):
                cs = k.get('changeset', a[0] if a else None)
                w.current_submission = w.by_changeset.get(cs, w.current_submission)
                return _real(*a, **k)

            setattr(tsub, name, scoped)
        # reset requests carry their cause
        import dawgie.fe.api as api
        import dawgie.fe.api.submit as asub
        import dawgie.fe.app as app
        import dawgie.fe.submit as lsub

        api.REV_SUBMIT.clear()  # process-global 'submission in progress' flags
        app.start_submit.clear()
        for mod in (asub, lsub):
            real_s1 = pipe._orig(mod.Process, 'step_1')
            real_fail = pipe._orig(mod.Process, 'failure')

            def step_1(proc, result, _real=real_s1):
                proc._sim_active_at_step_1 = w.fsm.is_pipeline_active()
                proc._sim_fields = w.fsm_fields()
                return _real(proc, result)

            def failure(proc, fail, _real=real_fail):
                r = _real(proc, fail)
                if getattr(proc, '_sim_active_at_step_1', None) is False:
                    # C12: a submission is refused unless the pipeline is active - and a refusal changes nothing
                    after = w.fsm_fields()
                    before = proc._sim_fields
                    w.probes['refused_not_active'] += 1
                    if before != after:
                        diff = sorted(k for k in before if before[k] != after[k])
                        w.violate('C12', 'refused_submission_changed_state', f'{before["state"]}:{",".join(diff)}',
                                  f'a submission refused because the pipeline was not active ({before["state"]}/{before["transitioning"]}) changed '
                                  f'{ {k: (before[k], after[k]) for k in diff} }')
                    proc._sim_active_at_step_1 = None
                return r

            mod.Process.step_1 = step_1
            mod.Process.failure = failure

        for mod, name in ((api, 'cmd_reset'), (app, 'schedule_reset')):
            real = pipe._orig(mod, name)

            def wrapped(*a, _real=real, _name=name, **k):
                w.cause = 'reset'
                refused = hasattr(w, 'fsm') and not w.fsm.is_pipeline_active()
                before = w.fsm_fields() if refused else None
                try:
                    return _real(*a, **k)
                finally:
                    w.cause = None
                    if refused:
                        # C10: what is not allowed in the current state is rejected without side effects
                        after = w.fsm_fields()
                        w.probes['reset_refused_not_active'] += 1
                        if before != after:
                            diff = sorted(x for x in before if before[x] != after[x])
                            w.violate('C10', 'refused_request_has_side_effects', f'reset@{before["state"]}:{",".join(diff)}',
                                      f'a reset request refused because the pipeline is not active ({before["state"]}/{before["transitioning"]}) '
                                      f'changed { {x: (before[x], after[x]) for x in diff} }')

            wrapped.__signature__ = __import__('inspect').signature(real)
            wrapped.__name__ = name
            wrapped._sim_real = real
            setattr(mod, name, wrapped)
            # the endpoint table holds the original function: swap it there as well
            self.swap_endpoint(real, wrapped)

    def swap_endpoint(self, real, wrapped):
        """the endpoint table holds the function object registered at import time"""
        import dawgie.fe.basis as basis

        def walk(node):
            for child in list(getattr(node, 'children', {}).values()):
                if isinstance(child, basis.DynamicContent):
                    f = child._DynamicContent__fnc
                    f = getattr(f, '_sim_counted', f)  # worlds/fe.py wraps the table entries once more
                    if f is real or getattr(f, '_sim_real', None) is real:
                        child._DynamicContent__fnc = wrapped
                else:
                    walk(child)

        walk(basis._root)

    # -- observed life-cycle events ------------------------------------------------
    def outstanding(self):
        """background steps of accepted triggers that have not completed yet"""
        sim = self.sim
        out = []
        for th in sim.threads:
            if not th.done and not th.dead and any(th.name.endswith(':' + b) for b in BACKGROUND):
                out.append(th.name)
                self.last_outstanding_label = th.label
        for _seq, fn, _ready in sim.fromthread:
            out.append('callback:' + getattr(fn, '__name__', 'f'))
        for p in sim.processes:
            if p.alive:
                out.append('process')
        for dc in sim.timers:
            n = core._fname(dc.func)
            if 'Deferred.callback' in n or n.endswith('callback'):
                out.append('deferred:' + n)
        return out

    def on_transition(self, old, new):
        fsm = self.fsm if hasattr(self, 'fsm') else None
        self.transitions.append((self.sim.steps, old, new))
        self.op(f'fsm: {old} -> {new}' + (f' (cause {self.cause})' if self.cause else ''))
        self.probes[f'edge_{old}_{new}'] += 1
        if (old, new) not in EDGES:
            self.violate('C10', 'undocumented_transition', f'{old}->{new}', f'life cycle moved {old} -> {new}, which is not a documented transition')
        if old == 'archiving':
            came = self.archive_from
            if came is not None and new != came:
                self.violate('C10', 'archive_did_not_return', f'{came}->archiving->{new}',
                             f'archiving was entered from {came} but left to {new}; outstanding={self.outstanding()}')
        if new == 'archiving':
            self.archive_from = old
        if old == 'running' and new == 'updating':
            self.on_reload_triggered()
        # the exit instant of a compliance process that is still running is a chooser decision: aim it at transient states
        if new in ('archiving', 'updating', 'loading', 'contemplation') and hasattr(self, 'proc'):
            for p in self.sim.processes:
                if p.alive and self.ch.flip('proc.exit_now', 1, 3):
                    when, code = self.proc._plan(p)
                    self.proc.plan[id(p)] = (self.sim.now, code)
                    self.probes['compliance_exit_aimed_at_transition'] += 1
        # injected not-allowed triggers are aimed at the transient states too, not only at the instants of user events
        if new != 'running' and self.cfg['mix'].get('bad_trigger') and hasattr(self, 'fsm') and self.ch.flip('bad.after_transition', 1, 4):
            self.sim.soon('bad_trigger', self.bad_trigger)

    archive_from = None

    def on_submission_accepted(self, changeset, priority):
        p = PRIO.get(priority, 0)  # anything unintelligible counts as todo_empty (documented default)
        if self.cycle is None:
            self.cycle = dict(P=p, subs=[(changeset, priority)], at=self.sim.now)
        else:
            if p > self.cycle['P']:
                self.probes['stronger_overtakes_waiting'] += 1
            elif p < self.cycle['P']:
                self.probes['weaker_after_stronger'] += 1
            self.cycle['P'] = max(self.cycle['P'], p)
            self.cycle['subs'].append((changeset, priority))
        self.cycle['hold_since'] = None
        self.op(f'submission accepted: {changeset} priority {priority}; strongest so far {PRIO_NAMES[self.cycle["P"]]}')
        self.probes['submission_accepted'] += 1
        self.probes['accepted_' + PRIO_NAMES[p]] += 1
        if self.pending is None:
            self.pending = aegen.evolve(self.ch, self.spec, max_total=self.cfg['max_total'], graph_edits=self.cfg.get('fsm_graph_edits', False))
            self.probes['software_update'] += 1

    def condition(self, p):
        """does the condition of priority p hold now, judged on ground truth"""
        G = self.G
        if p == 3:
            return True, 'now'
        if G.handed:
            return False, f'busy workers: {sorted(G.handed)[:3]}'
        if p == 2:
            return True, 'crew idle'
        # executing = turned into a task message (queued in the farm or with a worker); a unit the scheduler has released
        # but the farm could not convert yet (database error while drawing its run id) is executing for nobody
        executing = sorted(k for k, v in G.inflight.items() if v and k not in G.converting)
        if executing or G.queued:
            return False, f'executing: {executing[:3]}'
        if p == 1:
            return True, 'nothing executing'
        if not G.idle():
            owed = {a: sorted(t) for a, t in G.must.items() if t}
            return False, f'pending: {owed}'
        import dawgie.pl.schedule as schedule

        if schedule.que:
            return False, f'work queue: {[j.tag for j in schedule.que]}'
        return True, 'queue empty'

    def on_reload_triggered(self):
        self.reloads += 1
        self.probes['reload_triggered'] += 1
        if self.cause == 'reset':
            self.probes['reload_by_reset'] += 1
            self.cycle = None
            return
        if self.cycle is None:
            self.violate('C12', 'reload_without_submission', 'none', 'the pipeline left running for updating although no accepted submission is outstanding and nobody asked for a reset')
            return
        p = self.cycle['P']
        ok, why = self.condition(p)
        self.probes['reload_for_' + PRIO_NAMES[p]] += 1
        if not ok:
            self.violate('C12', 'reload_before_condition', PRIO_NAMES[p],
                         f'reload triggered for priority {PRIO_NAMES[p]} (submissions {self.cycle["subs"]}) while its condition does not hold: {why}')
        self.cycle = None

    # -- invariants after every step ------------------------------------------------
    def after_step(self, kind, label):
        super().after_step(kind, label)
        fsm = getattr(self, 'fsm', None)
        if fsm is None:
            return
        out = self.outstanding()
        # the oracle's own reading of the documented predicate (running and not in transition) OR the code's: a change to
        # is_pipeline_active() must not move the oracle with it (own mutant 'ignores transitioning', DESIGN 12.5)
        declared = fsm.is_pipeline_active()
        active = declared
        if declared and fsm.transitioning.name != 'active':
            self.violate('C10', 'active_while_transitioning', 'predicate',
                         f'is_pipeline_active() is True in {fsm.state}/{fsm.transitioning.name}')
        if active and fsm.state != 'running':
            self.violate('C10', 'active_but_not_running', fsm.state, f'pipeline declares itself active in state {fsm.state}')
        if active and out:
            # deferred:* are continuation callbacks of a submission (gitting path), they are steps of a *future* trigger
            # only the bodies of load / reload / archive / introspection count here: a queued no-op continuation of a
            # finished body, the compliance process and the deferred steps of a submission belong to no running transition
            hard = [o for o in out if o.startswith('pool-')]
            if hard:
                self.violate('C10', 'active_while_transitioning', hard[0].split(':')[-1],
                             f'pipeline declares itself active while background steps are outstanding: {hard} (last one is at: {getattr(self, "last_outstanding_label", "?")})')
        if not out and not self.sim._soon:
            if fsm.state not in ('running', 'gitting') or fsm.transitioning.name != 'active':
                self.rest_bad = getattr(self, 'rest_bad', 0) + 1
            else:
                self.rest_bad = 0
                self.probes['at_rest_observed'] += 1
        # C12 bounded liveness bookkeeping: since when does the condition of the strongest priority hold
        if self.cycle is not None and not active:
            self.cycle['hold_since'] = None  # the clock of the promptness clause only runs while the pipeline is active
        if self.cycle is not None and active:
            ok, _why = self.condition(self.cycle['P'])
            if ok:
                if self.cycle.get('hold_since') is None:
                    self.cycle['hold_since'] = self.sim.now
                elif self.cycle['P'] == 2 and self.sim.now - self.cycle['hold_since'] > 3 * 0.2 + 0.6 + 2 * max(self.sim.cb_delays or [0]):
                    # promptness is demanded for crew_idle only: 'no busy worker' is the same fact for the pipeline
                    # (farm._busy, see C03) and for the ground truth, whereas the pipeline's own notions of 'nothing
                    # executing' and 'queue empty' may lag behind ground truth without contradicting the statement
                    self.violate('C12', 'submission_not_prompt', 'crew_idle',
                                 f'strongest priority crew_idle (submissions {self.cycle["subs"]}): no worker has been busy since t={self.cycle["hold_since"]:.2f} '
                                 f'(now {self.sim.now:.2f}, pipeline active) but the reload is not triggered; fsm.priority={self.fsm.priority}')
            else:
                self.cycle['hold_since'] = None

    # -- workload -----------------------------------------------------------------------
    def user_event(self):
        import dawgie.context as ctx

        ch, cfg = self.ch, self.cfg
        mix = cfg['mix']
        bag = [k for k, n in mix.items() for _ in range(n)]
        kind = bag[ch.choose('u.kind', len(bag))]
        if kind == 'submit':
            return self.submit()
        if kind == 'reset':
            return self.reset_request()
        if kind == 'bad_trigger':
            return self.bad_trigger()
        # the scheduler workload of the base world; re-draw its kind from the remaining mix
        rest = {k: n for k, n in mix.items() if k not in ('submit', 'reset', 'bad_trigger')}
        saved = cfg['mix']
        cfg['mix'] = rest
        try:
            return super().user_event()
        finally:
            cfg['mix'] = saved

    def submit(self):
        import dawgie.context as ctx

        ch = self.ch
        self.nsub += 1
        names = self.cfg.get('priorities') or ['todo_empty', 'doing_empty', 'crew_idle', 'now', 'todo_empty', 'crew_idle', 'garbage']
        prio = names[ch.choose('sub.priority', len(names))]
        cs = f'cs{self.nsub}'
        if ch.flip('sub.label_grows', 1, 2) and self.git_history:
            cs = f'{self.git_history[-1]}.{self.nsub}'  # a label that starts with the one in operation (v2.1 -> v2.1.1)
        if ch.flip('sub.already_applied', 1, 12) and len(self.git_history) > 1:
            cs = self.git_history[-1]
        sub = dict(changeset=cs, priority=prio, n=self.nsub)
        if ch.flip('sub.head_mismatch', 1, 12):
            sub['head'] = 'other'
        if ch.flip('sub.git_fails', *self.cfg.get('git_fail', (1, 10))):
            at = self.cfg.get('git_fail_at') or [1, 2, 3, 4, 5]
            sub['git_fails_at'] = at[ch.choose('sub.git_fails_at', len(at))]
        eps = self.cfg.get('endpoints') or ['/api/rev/submit', '/app/submit']
        endpoint = eps[ch.choose('sub.endpoint', len(eps))]
        active = ctx.fsm.is_pipeline_active()
        snap = self.fsm_fields() if not active else None
        self.op(f'user: submit {cs} priority={prio} via {endpoint} (pipeline active: {active}, state {ctx.fsm.state})')
        self.probes['submit_request'] += 1
        if not active:
            self.probes['submit_while_not_active'] += 1
        self.current_submission = sub
        self.by_changeset[cs] = sub
        c = http.HttpClient(self.sim, pipeenv.FE_PORT, 'POST', endpoint, {'changeset': cs, 'submission': prio},
                            on_done=lambda c, sub=sub: self.on_submit_reply(c, sub))
        sub['client'] = c
        sub['active_at_request'] = active
        sub['snap'] = snap
        self.http_pending.append(c)

    def on_submit_reply(self, c, sub):
        try:
            body = json.loads(c.body.decode() or '{}')
        except Exception:  # noqa
            body = {'raw': c.body[:80]}
        ok = body.get('status') == 'success' or body.get('alert_status') == 'success'
        self.op(f'submit {sub["changeset"]} answered: {"success" if ok else "refused"} {str(body.get("message") or body.get("alert_message"))[:70]}')
        self.probes['submit_answered_success' if ok else 'submit_answered_failure'] += 1

    def reset_request(self):
        import dawgie.context as ctx

        ch = self.ch
        ep = ['/api/cmd/reset', '/app/reset'][ch.choose('reset.endpoint', 2)]
        arch = 'true' if ch.flip('reset.archive', 1, 3) else 'false'
        self.op(f'user: reset via {ep} archive={arch} (state {ctx.fsm.state})')
        self.probes['reset_request'] += 1
        if ctx.fsm.is_pipeline_active() and self.pending is None and ch.flip('reset.newsoftware', 1, 2):
            self.pending = aegen.evolve(ch, self.spec, max_total=self.cfg['max_total'], graph_edits=self.cfg.get('fsm_graph_edits', False))
        c = http.HttpClient(self.sim, pipeenv.FE_PORT, 'POST', ep, {'archive': arch}, on_done=lambda c: None)
        self.http_pending.append(c)

    def bad_trigger(self):
        """C10: a trigger that is not allowed in the current state is rejected without side effects"""
        import transitions

        fsm, ch = self.fsm, self.ch
        cands = sorted(t for t, srcs in TRIGGERS.items() if fsm.state not in srcs)
        t = cands[ch.choose('bad.trigger', len(cands))]
        before = self.fsm_fields()
        ntrans = len(self.transitions)
        self.probes['bad_trigger_injected'] += 1
        self.probes[f'bad_trigger_in_{fsm.state}'] += 1
        try:
            getattr(fsm, t)()
            raised = None
        except transitions.MachineError as e:
            raised = e
        except Exception as e:  # noqa
            raised = e
        after = self.fsm_fields()
        self.op(f'injected {t} in state {before["state"]}/{before["transitioning"]}: {"rejected" if raised else "ACCEPTED"}')
        if raised is None or len(self.transitions) != ntrans:
            self.violate('C10', 'not_allowed_trigger_accepted', f'{t}@{before["state"]}', f'{t} is not a documented transition from {before["state"]} but was accepted')
        elif before != after:
            diff = sorted(k for k in before if before[k] != after[k])
            self.violate('C10', 'rejected_trigger_has_side_effects', f'{t}@{before["state"]}:{",".join(diff)}',
                         f'{t} was rejected in {before["state"]} but changed {diff}: { {k: (before[k], after[k]) for k in diff} }')

    # -- the run ---------------------------------------------------------------------------
    def run(self):
        cfg = self.cfg
        self.hands = {}
        self.hand_worker = {}
        try:
            self.build()
            self.watch_hands()
            try:
                self.fsm = pipeenv.boot_pipeline(self.sim, fsm_cls=self.fsm_cls)
            except core.HarnessError as e:
                import dawgie.context as ctx

                f = ctx.fsm
                if self.outstanding():
                    raise
                # nothing is outstanding and the pipeline did not come to rest in running: the life cycle itself is stuck
                self.violate('C10', 'not_at_rest', f'{f.state}/{f.transitioning.name}:boot',
                             f'boot: no background step is outstanding but the pipeline is in {f.state}/{f.transitioning.name}; transitions: {self.transitions[-6:]}; {str(e)[-200:]}')
                raise pipe.Stop()
            self.op('pipeline is running')
            nw = cfg['workers'] if isinstance(cfg['workers'], int) else cfg['workers'][self.ch.choose('gen.workers', len(cfg['workers']))]
            self.workers = [pipe.Worker(self, i) for i in range(nw)]
            self.user = pipe.User(self)
            self.proc = ProcActor(self)
            self.sim.actors.extend(self.workers)
            self.sim.actors.append(self.user)
            self.sim.actors.append(self.proc)
            r = self.sim.run(until=lambda: self.user.done, max_steps=cfg['max_steps'])
            if r == 'until':
                self.settle()
            else:
                self.probes['budget_' + r] += 1
        except pipe.Stop:
            pass
        finally:
            try:
                self.final_checks()
            finally:
                pipeenv.close_db()
                if getattr(self, 'dir', None):
                    pipeenv.cleanup(self.dir)
        return self.result()

    def settle(self):
        """events and faults have stopped, workers answer everything: the pipeline must come to rest,
        and an accepted submission must take effect once its condition holds (bounded liveness)"""
        import dawgie.pl.schedule as schedule

        sim, G = self.sim, self.G
        self.cfg = dict(self.cfg, faults=False)
        budget = sim.steps + self.cfg['max_steps'] * 2
        for _round in range(6):
            # let the work drain
            horizon = sim.now + 12 * (5.0 + max(self.delays)) + 60
            sim.run(until=lambda: (G.idle() and not G.handed and not self.outstanding() and not self.http_inflight()) or self.stopped,
                    max_steps=budget, max_time=horizon)
            if self.stopped:
                return
            if self.dead_units or any(u for u in G.handed if not self.unit_being_worked(u)):
                self.probes['settle_skipped_dead_worker'] += 1
                break
            if self.cycle is None:
                break
            # an accepted submission is outstanding and nothing is pending or executing: every priority's
            # condition holds from now on; the reload has to come within three polls of the waiters
            if not self.fsm.is_pipeline_active():
                sim.run(until=lambda: self.fsm.is_pipeline_active() or self.stopped, max_steps=budget, max_time=sim.now + 60)
            if not (G.idle() and not G.handed):
                continue
            n = self.reloads
            p = self.cycle['P']
            self.probes['liveness_window_' + PRIO_NAMES[p]] += 1
            sim.run(until=lambda: self.reloads != n or self.stopped, max_steps=budget, max_time=sim.now + 3 * 0.2 + 0.5 + 2 * max(sim.cb_delays or [0]))
            if self.stopped:
                return
            if self.reloads == n:
                f = self.fsm
                stale = [nm for nm, h in (('crew', f.crew_thread), ('doing', f.doing_thread), ('todo', f.todo_thread)) if h is not None]
                alive = [th.name for th in sim.threads if not th.done and not th.dead]
                # C04 speaks of the same fact from the waiter's side: 'every waiter on "queue empty" or "nothing executing"
                # is eventually satisfied' (the crew waiter is C12's alone)
                for pr in (('C12', 'C04') if PRIO_NAMES[p] in ('todo_empty', 'doing_empty') else ('C12',)):
                    self.violate(pr, 'submission_never_takes_effect' if pr == 'C12' else 'waiter_not_satisfied', f'{PRIO_NAMES[p]}:stale_handles={"+".join(stale) or "none"}',
                             f'submissions {self.cycle["subs"]} accepted, strongest priority {PRIO_NAMES[p]}; nothing is pending, executing or busy '
                             f'since t={self.cycle.get("hold_since")} (now {sim.now:.2f}) but no reload is triggered; fsm.priority={f.priority} '
                             f'waiter handles still set: {stale}; live threads: {alive}; state {f.state}/{f.transitioning.name}')
                return
            self.probes['submission_took_effect_in_window'] += 1
        # C10 (iii): at rest
        sim.run(until=lambda: (not self.outstanding() and not self.http_inflight()) or self.stopped, max_steps=budget, max_time=sim.now + 120)
        if self.stopped:
            return
        f = self.fsm
        if self.outstanding():
            self.probes['settle_still_outstanding'] += 1
            return
        self.probes['settled'] += 1
        if f.state == 'gitting' and not self.http_inflight():
            # 'submit and back': gitting is the rest of a submission that is being checked.  Here no compliance process
            # is alive, no continuation of a submission is queued and no request is open: nothing will ever take the
            # pipeline back to running (it stays inactive, every later submission and reset is refused)
            self.violate('C10', 'not_at_rest', 'gitting_with_no_submission_in_progress',
                         f'no background step, compliance process or request is outstanding but the pipeline is still in gitting; transitions: {self.transitions[-6:]}')
        if f.state not in ('running', 'gitting') or f.transitioning.name != 'active':
            self.violate('C10', 'not_at_rest', f'{f.state}/{f.transitioning.name}',
                         f'no background step is outstanding but the pipeline is in {f.state}/{f.transitioning.name}; transitions: {self.transitions[-6:]}')

    def http_inflight(self):
        return [c for c in self.http_pending if not c.done and not c.conn.idle()]

    def unit_being_worked(self, u):
        return any(wk.task is not None and (wk.task.jobid, wk.task.target or ALL) == (u[0], u[1]) for wk in self.workers if wk.state in ('working', 'polling', 'replying'))

    def result(self):
        r = super().result()
        r['nontrivial'] = bool(len(self.transitions) >= 4 and self.sim.counts['sched.reordered'] > 0 and
                               (self.probes['submission_accepted'] or self.probes['bad_trigger_injected'] or self.probes['reload_triggered']))
        r['transitions'] = len(self.transitions)
        return r


def warmup():
    return pipe.warmup()


def run(ch, cfg):
    return FsmWorld(ch, cfg).run()
