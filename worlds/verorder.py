"""C15, first sentence: the six comparison operators and newer() agree with the lexicographic order on
(design, implementation, bugfix).  A pure function: decided by exhaustive enumeration over {0,1,2,10,99,100,101,70000}^3 pairs
(counters around the powers of ten and past 16 bits: packed or string-wise comparisons break there),
NOT by simulation (the evidence says so); it lives here only so that one command decides all of C15."""

import itertools

from sim import boot


def warmup():
    boot.setup()
    return True


def run(ch, cfg):
    sim = boot.setup()
    sim.fresh(ch)
    import dawgie

    class V(dawgie.Version):
        def __init__(self, t):
            self._version_ = dawgie.VERSION(*t)

    vals = list(itertools.product((0, 1, 2, 10, 99, 100, 101, 70000), repeat=3))
    violations, n = [], 0
    for a in vals:
        for b in vals:
            va, vb = V(a), V(b)
            got = dict(eq=va == vb, ne=va != vb, lt=va < vb, le=va <= vb, gt=va > vb, ge=va >= vb, newer=va.newer(vb._get_ver()))
            want = dict(eq=a == b, ne=a != b, lt=a < b, le=a <= b, gt=a > b, ge=a >= b, newer=a > b)
            n += 1
            bad = sorted(k for k in got if bool(got[k]) != want[k])
            if bad and len(violations) < 3:
                violations.append(dict(property='C15', rule='version_order', signature=','.join(bad),
                                       message=f'{a} vs {b}: operators {bad} disagree with the lexicographic order: got { {k: got[k] for k in bad} }', step=0, t=0))
    # asstring round trip used as the persisted form
    for a in vals:
        if V(a).asstring() != '.'.join(map(str, a)):
            violations.append(dict(property='C15', rule='version_order', signature='asstring', message=f'{a} -> {V(a).asstring()}', step=0, t=0))
    sim.log('enum', f'{n}')
    return dict(violations=violations, probes={'version_pairs_enumerated': n}, faults={}, steps=n, vtime=0.0, digest=sim.digest() + str(ch.choose('dummy', 1 << 30)),
                nontrivial=False, kinds={}, sample=[f'all {n} ordered pairs over {{0,1,2,10,99,100,101,70000}}^3 x 7 operators'], ops=[f'{n} pairs'])
