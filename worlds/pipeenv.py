"""W-PIPE environment: the real pipeline (FSM, schedule, farm, shelve, front
end) booted on the simulated reactor inside a per-run directory."""

import os
import shutil
import types

from sim import boot, core

FARM_PORT, FE_PORT, DB_PORT, LOG_PORT, CFE_PORT = 8081, 8080, 8083, 8082, 8085


class _FakeCertOpts:
    def options(self, *a):
        return self


_n = [0]


def rundir():
    _n[0] += 1
    d = f'/dev/shm/verif-{os.getpid():07d}-{_n[0] % 1000:03d}'  # fixed width: byte lengths of pickled contexts must not depend on the pid
    if os.path.isdir(d):
        shutil.rmtree(d, ignore_errors=True)
    for sub in ('db', 'dbs', 'stg', 'logs', 'fe', 'ae'):
        os.makedirs(os.path.join(d, sub))
    return d


def cleanup(d):
    shutil.rmtree(d, ignore_errors=True)


def configure(d, base='vae', rev='rev0', tls=True, client_certs=False):
    import dawgie.context as ctx
    import dawgie.security as sec

    ctx.ae_base_path = os.path.join(d, 'ae', *base.split('.'))
    ctx.ae_base_package = base
    ctx.data_dbs = os.path.join(d, 'dbs')
    ctx.data_log = os.path.join(d, 'logs')
    ctx.data_per = os.path.join(d, 'db')
    ctx.data_stg = os.path.join(d, 'stg')
    ctx.db_path = os.path.join(d, 'db')
    ctx.db_rotate_path = os.path.join(d, 'db')
    ctx.db_copy_path = os.path.join(d, 'stg')
    ctx.db_name = 'sim'
    ctx.db_impl = 'shelve'
    ctx.db_host = 'localhost'
    ctx.db_port = DB_PORT
    ctx.db_rotate = 2
    ctx.db_lock = False
    ctx.farm_port = FARM_PORT
    ctx.fe_port = FE_PORT
    ctx.cfe_port = CFE_PORT
    ctx.log_port = LOG_PORT
    ctx.fe_path = os.path.join(d, 'fe')
    ctx.site_path = ''
    ctx.sanction_override = 'dawgie.security.is_sanctioned'
    ctx.identity_override = 'dawgie.security.fetch_identity'
    ctx.git_rev = rev
    ctx.allow_promotion = False
    ctx.email_alerts_to = ''
    ctx.boot_time = boot.now_dt()
    os.environ['DAWGIE_DOCKERIZED_AE_GIT_REVISION'] = rev
    sec._certs.clear()
    sec._myself.clear()
    sec._system.clear()
    if tls:
        sec._myself.update({'file': 'none', 'name': 'sim', 'private': _FakeCertOpts(), 'public': []})
    if client_certs:
        sec._certs.append(object())


def reset_globals():
    """process-global state of the pipeline modules, as at import"""
    import dawgie.pl.farm as farm
    import dawgie.pl.schedule as schedule
    import dawgie.pl.scan as scan
    import dawgie.pl.promotion
    from dawgie.db.shelve.state import DBI

    for name in ('_busy', '_cloud', '_cluster', '_workers', '_jobs', '_reject', '_repeat'):
        lst = getattr(farm, name, None)
        if lst is not None:
            lst.clear()
    farm._time.clear()
    farm.insights = {}
    farm.ARCHIVE = False
    farm._agency[0] = None
    schedule.ae = None
    schedule.booted.clear()
    schedule.err.clear()
    schedule.suc.clear()
    schedule.que = []
    schedule.per = []
    schedule.pipeline_paused = False
    schedule.promote = dawgie.pl.promotion.Engine()
    scan.REGISTRY.clear()
    scan.IGNORE.clear()
    close_db()
    boot.LOGS.records.clear()


def close_db():
    """close the shelve tables; if their directory is already gone, drop the handles"""
    from dawgie.db.shelve.state import DBI

    dbi = DBI()
    try:
        dbi.close()
    except Exception:  # noqa
        for t in dbi.tables:
            try:
                if t is not None:
                    t.dict._index = {}
                    t.dict._modified = False
                    t.close()
            except Exception:  # noqa
                pass
        names = [n for n in dbi.tables._fields]
        grp = type(dbi.tables)
        dbi._DBI__indices = grp(**{n: None for n in names})
        dbi._DBI__tables = grp(**{n: None for n in names})
        dbi._DBI__reopened = False
        dbi._DBI__task_engine = None


class FsmArgs:
    log_file = 'sim.log'
    log_level = 30
    port = FE_PORT


def make_fsm(fsm_cls=None):
    """a real, non-doctest FSM with the three stubs of DESIGN.md section 4"""
    import dawgie.context as ctx
    import dawgie.pl.state as state

    fsm = (fsm_cls or state.FSM)()
    fsm.wait_timeout = 0
    fsm.args = FsmArgs()
    fsm._security = types.MethodType(lambda self: None, fsm)
    fsm._logging = types.MethodType(lambda self: None, fsm)
    ctx.fsm = fsm
    return fsm


def quiet_site(sim):
    """the Site's once-a-second log-date timer is noise for the scheduler"""
    for port, (factory, _ssl) in sim.listeners.items():
        call = getattr(factory, '_logDateTimeCall', None)
        if call is not None and call.active():
            call.cancel()
            factory._logDateTimeCall = None


def boot_pipeline(sim, max_steps=400, fsm_cls=None):
    """starting -> loading -> contemplation -> running through the real triggers"""
    fsm = make_fsm(fsm_cls)
    fsm.starting_trigger()
    quiet_site(sim)
    r = sim.run(until=lambda: fsm.is_pipeline_active(), max_steps=sim.steps + max_steps)
    if not fsm.is_pipeline_active():
        raise core.HarnessError(f'pipeline did not boot: {r} state={fsm.state} logs={boot.LOGS.records[-5:]}')
    return fsm
