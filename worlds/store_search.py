"""C17: search / facet as read operations of a W-STORE history, checked against a brute-force
filter of the primary table read at the same instant (worlds.store_model.Catalogue)."""

import collections
import json

from worlds import store_model as sm

DIMS = ('targets', 'tasks', 'algs', 'svs')
ROWKEY = {'targets': 'target', 'tasks': 'task', 'algs': 'alg', 'svs': 'sv'}


def draw_runexpr(w, tag, allow_latest=True, runs=()):
    """-> (string form, list form or None, kinds of terms)"""
    import dawgie.db.basis as basis

    ch = w.ch
    hi = 14
    runs = sorted(set(runs))
    n = 1 + ch.choose(tag + '.nterms', 3)
    terms, items, kinds = [], [], set()
    for _ in range(n):
        k = ch.choose(tag + '.term', 6 if allow_latest else 5)
        a = ch.choose(tag + '.a', hi)
        b = ch.choose(tag + '.b', hi)
        if runs and ch.flip(tag + '.near', 1, 2):
            a = runs[a % len(runs)]
            b = a + b % 4
        if k == 0:
            terms.append(str(a))
            items.append(a)
            kinds.add('id')
        elif k == 1:
            terms.append(f'{a}:{b}')
            items.append(basis.Range(a, b))
            kinds.add('range')
        elif k == 2:
            terms.append(f'{a}:')
            items.append(basis.Range(a, None))
            kinds.add('open_end')
        elif k == 3:
            terms.append(f':{b}')
            items.append(basis.Range(0, b))
            kinds.add('open_start')
        elif k == 4:
            terms.append(f'{a}:{a + 1 + b % 3}')
            items.append(basis.Range(a, a + 1 + b % 3))
            kinds.add('range')
        else:
            terms.append('-1')
            items.append(-1)
            kinds.add('latest')
    return ','.join(terms), items, kinds


def check_scrub(w, expr, items):
    """normalising a run-id expression never changes the set of run ids it denotes (ids 0..max+2);
    -1 is the documented 'latest' marker: only its survival is asserted"""
    import dawgie.db.basis as basis

    universe = set(range(0, 17))
    for form, given in (('string', expr), ('list', list(items))):
        try:
            out = basis.SearchFacade._scrub(basis.Params(runids=given)).runids
        except Exception as e:  # noqa
            w.violate('C17', 'scrub_raised', type(e).__name__, f'normalising {given!r} raised {e!r}', fatal=False)
            continue
        want = sm.denote_expr(expr, universe)
        got = sm.denote_list([x for x in out if not (isinstance(x, int) and x < 0)], universe)
        w.probes['scrub_checked'] += 1
        if got != want:
            w.violate('C17', 'scrub_changes_set', form,
                      f'{given!r} denotes {sorted(want)} within 0..16, its normal form {out!r} denotes {sorted(got)}', fatal=False)
        if (-1 in items) != (-1 in [x for x in out if isinstance(x, int)]):
            w.violate('C17', 'scrub_drops_latest', form, f'{given!r} -> {out!r}', fatal=False)


def draw_constraints(w, tag, rows):
    ch = w.ch
    cons = {}
    for d in DIMS:
        if ch.flip(tag + '.con_' + d, 1, 3):
            present = sorted({r[ROWKEY[d]] for r in rows})
            pool = present + [x for x in NAME_POOL(w)[d] if x not in present]
            k = 1 + ch.choose(tag + '.ncon', 2)
            sel = []
            for _ in range(k):
                x = pool[ch.choose(tag + '.con', len(pool))]
                if x not in sel:
                    sel.append(x)
            cons[d] = sel
    return cons


def NAME_POOL(w):
    from worlds import store

    return store.NAME_POOL


def brute(rows, runset, cons):
    """primary entries satisfying every constraint, collapsed to state-vector granularity"""
    seen = {}
    for r in rows:
        if runset is not None and r['run'] not in runset:
            continue
        if any(r[ROWKEY[d]] not in v for d, v in cons.items()):
            continue
        seen[r['ids'][:5]] = r
    out = [f"{r['run']}.{r['target']}.{r['task']}.{r['alg']}.{r['sv']}" for _k, r in sorted(seen.items())]
    return out, list(seen.values())


def search_op(w, tag, kinds=('find', 'facet', 'fe')):
    import dawgie.db
    import dawgie.db.basis as basis

    ch = w.ch
    cat = w.catalogue()
    rows, _bad = cat.resolve()
    kind = kinds[ch.choose(tag + '.skind', len(kinds))]
    expr = items = None
    ekinds = set()
    if ch.flip(tag + '.runids', 2, 3):
        expr, items, ekinds = draw_runexpr(w, tag, runs=[r['run'] for r in rows])
        check_scrub(w, expr, items)
    cons = draw_constraints(w, tag, rows)
    if expr is not None and 'latest' in ekinds:
        # nothing is asserted about what -1 selects: the expression was only used for the normaliser
        expr = items = None
        ekinds = set()
    universe = {r['run'] for r in rows} | set(range(0, 17))
    runset = sm.denote_expr(expr, universe) if expr is not None else None
    want, wrows = brute(rows, runset, cons)
    as_list = expr is not None and ch.flip(tag + '.listform', 1, 3)
    runarg = (list(items) if as_list else expr) if expr is not None else None
    text = f'runids={runarg!r} ' + ' '.join(f'{d}={v}' for d, v in cons.items())
    esig = 'runids_with_range' if ekinds & {'range', 'open_end', 'open_start'} else ('runids_list' if ekinds else 'no_runids')

    if kind == 'facet':
        free = [d for d in DIMS if d not in cons]
        if not free:
            return
        d = free[ch.choose(tag + '.facet', len(free))]
        p = basis.Params(runids=runarg, **{x: (cons.get(x) if x != d else []) for x in DIMS})
        via_fe = ch.flip(tag + '.facet_fe', 1, 2)
        try:
            if via_fe:
                import dawgie.fe.api.facet as fefacet

                fn = {'targets': fefacet.target, 'tasks': fefacet.task, 'algs': fefacet.alg, 'svs': fefacet.sv}[d]
                kw = {x: [','.join(v)] for x, v in cons.items()}
                obj = json.loads(fn(runids=[expr] if expr is not None else None, **kw).decode())
                if obj['status'] != 'success':
                    raise RuntimeError(f'front end answered {obj}')
                got = obj['content']
                text = f'runids={expr!r} ' + ' '.join(f'{x}={v}' for x, v in cons.items()) + ' (fe.api.facet)'
                w.probes['facet_via_front_end'] += 1
            else:
                got = dawgie.db.search().facet(p)
        except Exception as e:  # noqa
            w.violate('C17', 'facet_raised', type(e).__name__, f'facet {d} with {text} raised {e!r}', fatal=False)
            return
        exp = sorted({r[ROWKEY[d]] for r in wrows})
        w.op(f'{tag}: facet {d} {text} -> {got}')
        w.probes['facet'] += 1
        if exp:
            w.probes['facet_nonempty'] += 1
        if list(got) != exp:
            w.violate('C17', 'facet_wrong', esig, f'facet {d} with {text}: got {list(got)}, brute force over the primary table {exp}', fatal=False)
        w.searches_checked += 1
        return

    def find(index, limit):
        if kind == 'fe':
            import dawgie.fe.api.database as fedb

            kw = {d: [','.join(v)] for d, v in cons.items()}
            raw = fedb.search(runids=[expr] if expr is not None else None, index=[str(index)], limit=[str(limit)] if limit is not None else None, **kw)
            obj = json.loads(raw.decode())
            if obj['status'] != 'success':
                raise RuntimeError(f'front end answered {obj}')
            return list(obj['content']['items']), obj['content']['total']
        res = dawgie.db.search().find(basis.Params(runids=runarg, **{x: cons.get(x) for x in DIMS}), index, limit)
        return list(res.items), res.total

    via = 'fe.api.database.search' if kind == 'fe' else 'db.search().find'
    try:
        full, total = find(0, None)
    except Exception as e:  # noqa
        w.violate('C17', 'find_raised', type(e).__name__, f'{via} {text} raised {e!r}', fatal=False)
        return
    w.op(f'{tag}: {via} {text} -> {len(full)} items, total {total} (brute force {len(want)})')
    w.probes['find'] += 1
    w.probes['find_via_front_end' if kind == 'fe' else 'find_direct'] += 1
    if want:
        w.probes['find_nonempty'] += 1
    if ekinds & {'range', 'open_end', 'open_start'} and want:
        w.probes['find_range_nonempty'] += 1
    cf, cw = collections.Counter(full), collections.Counter(want)
    if cf != cw:
        miss, extra = sorted((cw - cf).elements()), sorted((cf - cw).elements())
        how = 'missing' if miss and not extra else ('extra' if extra and not miss else 'both')
        w.violate('C17', 'find_wrong_items', f'{esig}:{how}',
                  f'{via} {text}: missing {miss[:6]}, not matching but returned {extra[:6]} (brute force: {len(want)} items)', fatal=False)
    runs = [int(i.split('.')[0]) for i in full]
    if runs != sorted(runs):
        w.violate('C17', 'find_not_ascending', 'runid', f'{via} {text}: run ids in returned order {runs}', fatal=False)
    if total != len(want):
        w.violate('C17', 'total_wrong', 'full' if total == len(full) else 'other', f'{via} {text}: total {total}, full match count {len(want)}', fatal=False)
    # pages
    if len(full) >= 2:
        limit = 1 + ch.choose(tag + '.limit', min(4, len(full)))
        pages, pos, bad_total = [], 0, None
        while pos < len(full) + limit and len(pages) < 12:
            try:
                items_, tot = find(pos, limit)
            except Exception as e:  # noqa
                w.violate('C17', 'find_raised', 'page:' + type(e).__name__, f'{via} {text} index={pos} limit={limit} raised {e!r}', fatal=False)
                return
            if tot != total:
                bad_total = (pos, tot)
            pages.append(items_)
            pos += limit
            if pos >= len(full):
                break
        w.probes['pages_checked'] += 1
        if len(pages) > 1:
            w.probes['pages_more_than_one'] += 1
        cat_ = [x for p in pages for x in p]
        # at most 12 pages are fetched: a longer list is compared on the prefix the fetched pages cover
        covered = full if pos >= len(full) else full[:pos]
        if cat_ != covered:
            first_bad = next((i for i, p in enumerate(pages) if p != full[i * limit:(i + 1) * limit]), None)
            w.violate('C17', 'pages_do_not_concatenate', 'first_page' if first_bad == 0 else 'later_page',
                      f'{via} {text} limit={limit}: pages {pages} do not concatenate to the full list {full} (page {first_bad} differs)', fatal=False)
        if bad_total:
            w.violate('C17', 'total_wrong', 'page', f'{via} {text} index={bad_total[0]} limit={limit}: total {bad_total[1]}, full list has {total}', fatal=False)
    w.searches_checked += 1
