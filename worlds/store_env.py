"""W-STORE environment: the real shelve persistence layer (dbm.dumb tables, blob
store, staging area, DBSerializer/comms.Worker listening on the simulated
reactor) inside a per-run directory, plus the harness patches DESIGN.md section 4
lists for the client side.

Harness patches (all listed in the evidence `components`):
  * dawgie.security.connect -> sim.core.SimSocket (the only network seam)
  * DBI.reopen / DBI.close / DBI.is_reopened / DBI.is_open made thread-aware: a
    controlled client thread that called reopen() sees "reopened" (and therefore
    goes through Connector), the reactor/main thread sees the real tables.  In
    production these are two processes with one DBI() each.
  * subprocess.check_output inside dawgie.db.util answered by hashlib for
    ['md5sum'|'sha1sum', '-b', path] in coreutils output format (calibrated
    against the real binaries in warmup(); ~1 run in 50 uses the real ones)
  * tempfile.mkstemp inside dawgie.db.util: deterministic names (still O_EXCL files
    created in dawgie.context.data_stg)
"""

import hashlib
import os
import pickle
import shutil
import subprocess
import tempfile
import types

from sim import boot, core
from worlds import pipeenv

TABLES = ('alg', 'prime', 'state', 'target', 'task', 'value')
_n = [0]


def rundir():
    """per-run scratch directory; fixed-width name"""
    _n[0] += 1
    d = f'/dev/shm/verif-{os.getpid():07d}-s{_n[0] % 1000:03d}'
    if os.path.isdir(d):
        shutil.rmtree(d, ignore_errors=True)
    for sub in ('db', 'dbs', 'stg', 'logs', 'fe', 'ae/vae'):
        os.makedirs(os.path.join(d, sub))
    return d


def cleanup(d):
    shutil.rmtree(d, ignore_errors=True)


# --------------------------------------------------------------------------
# DBI thread awareness
# --------------------------------------------------------------------------

_REOPENED = set()  # SimThread objects that called reopen()
_DBI_REAL = {}


def patch_dbi():
    from dawgie.db.shelve.state import DBI

    if _DBI_REAL:
        return
    _DBI_REAL['reopen'] = DBI.reopen
    _DBI_REAL['close'] = DBI.close
    _DBI_REAL['is_reopened'] = DBI.is_reopened
    _DBI_REAL['is_open'] = DBI.is_open

    def reopen(self):
        th = core.current_thread()
        if th is None:
            return _DBI_REAL['reopen'](self)
        _REOPENED.add(th)
        return all(t is not None for t in self.tables)

    def close(self):
        th = core.current_thread()
        if th is None:
            return _DBI_REAL['close'](self)
        _REOPENED.discard(th)
        return None

    def is_reopened(self):
        th = core.current_thread()
        if th is None:
            return _DBI_REAL['is_reopened'].fget(self)
        return th in _REOPENED

    def is_open(self):
        th = core.current_thread()
        if th is None:
            return _DBI_REAL['is_open'].fget(self)
        return th in _REOPENED or all(t is not None for t in self.tables)

    DBI.reopen = reopen
    DBI.close = close
    DBI.is_reopened = property(is_reopened)
    DBI.is_open = property(is_open)


# --------------------------------------------------------------------------
# digests: hashlib stand-in for the md5sum / sha1sum sub-processes
# --------------------------------------------------------------------------

_REAL_CHECK_OUTPUT = subprocess.check_output
HASH = {'real': False, 'calls': 0, 'real_calls': 0}


def _fake_check_output(cmd, *a, **k):
    if (isinstance(cmd, (list, tuple)) and len(cmd) == 3 and cmd[0] in ('md5sum', 'sha1sum') and cmd[1] == '-b'
            and not a and not k):
        HASH['calls'] += 1
        if HASH['real']:
            HASH['real_calls'] += 1
            return _REAL_CHECK_OUTPUT(cmd)
        with open(cmd[2], 'rb') as f:
            data = f.read()
        h = hashlib.md5(data) if cmd[0] == 'md5sum' else hashlib.sha1(data)
        return f'{h.hexdigest()} *{cmd[2]}\n'.encode()
    return _REAL_CHECK_OUTPUT(cmd, *a, **k)


def calibrate_hash():
    """the stand-in must be byte-identical to the coreutils binaries"""
    d = tempfile.mkdtemp(dir='/dev/shm', prefix='verif-cal-')
    try:
        samples = [b'', b'x', b'\x00' * 70000, pickle.dumps({'a': [1, 2, (3, 'x')]}, pickle.HIGHEST_PROTOCOL),
                   bytes(range(256)) * 33]
        for i, s in enumerate(samples):
            p = os.path.join(d, f'shelve_{i}.pkl')
            with open(p, 'wb') as f:
                f.write(s)
            for tool in ('md5sum', 'sha1sum'):
                real = _REAL_CHECK_OUTPUT([tool, '-b', p])
                HASH['real'] = False
                fake = _fake_check_output([tool, '-b', p])
                if real != fake:
                    raise core.HarnessError(f'hash stand-in differs from {tool}: {real!r} != {fake!r}')
    finally:
        shutil.rmtree(d, ignore_errors=True)
    return True


class _SubprocessShim(types.ModuleType):
    pass


def patch_hash():
    import dawgie.db.util as dbu

    shim = _SubprocessShim('subprocess')
    for k in dir(subprocess):
        if not k.startswith('__'):
            setattr(shim, k, getattr(subprocess, k))
    shim.check_output = _fake_check_output
    dbu.subprocess = shim


# --------------------------------------------------------------------------
# deterministic staging names
# --------------------------------------------------------------------------

_STG = {'n': 0}


class _TempfileShim(types.ModuleType):
    pass


def _mkstemp(suffix=None, prefix=None, dir=None, text=False):  # noqa: A002
    while True:
        _STG['n'] += 1
        fn = os.path.join(dir or '/dev/shm', f'{prefix or "tmp"}{_STG["n"]:08d}{suffix or ""}')
        try:
            fd = os.open(fn, os.O_RDWR | os.O_CREAT | os.O_EXCL, 0o600)
            return fd, fn
        except FileExistsError:
            continue


def patch_tempfile():
    import dawgie.db.util as dbu

    shim = _TempfileShim('tempfile')
    for k in dir(tempfile):
        if not k.startswith('__'):
            setattr(shim, k, getattr(tempfile, k))
    shim.mkstemp = _mkstemp
    dbu.tempfile = shim


# --------------------------------------------------------------------------
# network seam
# --------------------------------------------------------------------------


def patch_connect(sim):
    import dawgie.security as sec

    def connect(address):
        return core.SimSocket(sim, address)

    sec.connect = connect


def install_conn_pruning(sim):
    """finished connections are forgotten so that Sim.enabled() stays cheap: a
    history makes thousands of one-request connections.  Connection ids keep
    counting (they are part of the event log)."""
    state = {'n': 0}

    def connect(port, client, host='10.0.1.1', cert=None):
        if int(port) not in sim.listeners:
            sim.count('net.refused')
            raise ConnectionRefusedError(f'sim: nothing listens on {port}')
        factory, _ssl = sim.listeners[int(port)]
        cid = state['n']
        state['n'] += 1
        peer = core.Address(host, 40000 + cid % 20000)
        proto = factory.buildProtocol(peer)
        conn = core.SimConn(sim, cid, int(port), proto, client, peer, cert)
        if len(sim.conns) > 24:
            sim.conns[:] = [c for c in sim.conns if not (c.client_gone and c.server_gone and c.idle())]
        sim.conns.append(conn)
        proto.makeConnection(conn.transport)
        sim.count('net.connections')
        return conn

    sim.connect = connect


def uninstall_conn_pruning(sim):
    sim.__dict__.pop('connect', None)


# --------------------------------------------------------------------------
# per-run reset
# --------------------------------------------------------------------------


def reset(sim, ch, net=None):
    """every piece of process-global state W-STORE touches, as at import"""
    import dawgie.context as ctx

    patch_dbi()
    patch_hash()
    patch_tempfile()
    _REOPENED.clear()
    _STG['n'] = 0
    HASH['real'] = False
    HASH['calls'] = 0
    HASH['real_calls'] = 0
    pipeenv.close_db()
    sim.fresh(ch, net=net)
    boot.set_epoch(boot.EPOCH)
    boot._state['skew'] = 0.0
    boot.LOGS.records.clear()
    ctx.db_lock = False
    patch_connect(sim)
    install_conn_pruning(sim)


def configure(d):
    pipeenv.configure(d, base='vae')


def open_db():
    import dawgie.db

    dawgie.db.open()


def close_db():
    pipeenv.close_db()


def abandon_db():
    """drop the table handles WITHOUT committing anything (what a killed process does)"""
    from dawgie.db.shelve.state import DBI

    dbi = DBI()
    for t in dbi.tables:
        if t is not None:
            try:
                t.dict._modified = False
            except Exception:  # noqa
                pass
    pipeenv.close_db()


def reinit(sim, ch):
    """a forked incarnation starts with an empty simulator (no timers, connections, threads of its parent)"""
    import dawgie.context as ctx

    _REOPENED.clear()
    sim.fresh(ch)
    boot.LOGS.records.clear()
    ctx.db_lock = False
    patch_connect(sim)
    install_conn_pruning(sim)


class swapped_store:
    """the real DBI.open() on another directory while the handles of the running history are kept aside:
    how a new incarnation looks at a crash image without disturbing the history"""

    FIELDS = ('db_path', 'data_dbs', 'data_stg', 'data_per')

    def __init__(self, d):
        self.d = d

    def __enter__(self):
        import dawgie.context as ctx
        from dawgie.db.shelve.state import DBI

        dbi = DBI()
        self.saved = (dbi._DBI__indices, dbi._DBI__tables, dbi._DBI__reopened, dbi._DBI__task_engine)
        self.paths = {f: getattr(ctx, f) for f in self.FIELDS}
        grp = type(dbi.tables)
        none = grp(**{n: None for n in grp._fields})
        dbi._DBI__indices, dbi._DBI__tables, dbi._DBI__reopened, dbi._DBI__task_engine = none, none, False, None
        ctx.db_path = os.path.join(self.d, 'db')
        ctx.data_per = os.path.join(self.d, 'db')
        ctx.data_dbs = os.path.join(self.d, 'dbs')
        ctx.data_stg = os.path.join(self.d, 'stg')
        try:
            dbi.open()
        except BaseException:
            self._restore()
            raise
        return self

    def _restore(self):
        import dawgie.context as ctx
        from dawgie.db.shelve.state import DBI

        dbi = DBI()
        dbi._DBI__indices, dbi._DBI__tables, dbi._DBI__reopened, dbi._DBI__task_engine = self.saved
        for f, v in self.paths.items():
            setattr(ctx, f, v)

    def __exit__(self, *a):
        from dawgie.db.shelve.state import DBI

        dbi = DBI()
        try:
            for t in dbi.tables:
                if t is not None:
                    try:
                        t.dict._modified = False
                        t.close()
                    except Exception:  # noqa
                        pass
        finally:
            self._restore()
        return False


def sweep_stale():
    """scratch directories of W-STORE runs whose process is gone (killed by a timeout, or its server was killed):
    pids are recycled, so a leftover could collide with a later run; called once per run-server start"""
    import re

    pat = re.compile(r'^verif-(\d{7})-s\d{3}')
    n = 0
    try:
        with os.scandir('/dev/shm') as it:
            names = [e.name for e in it]
    except OSError:
        return 0
    for name in names:
        m = pat.match(name)
        if m and not os.path.exists(f'/proc/{int(m.group(1))}'):
            shutil.rmtree(os.path.join('/dev/shm', name), ignore_errors=True)
            n += 1
    return n
