"""W-PIPE with REAL workers: the second sentence of C02.

Workers are controlled threads running the real worker code - `dawgie.pl.worker.cluster.execute` ->
`worker.Context.run` -> `version.record`, `Task.do` / `Analysis.do` (load, run, update, metrics) ->
`db.shelve.model.Interface` -> `comms.Connector` / `comms.acquire` over simulated sockets -> the pipeline's real
`comms.Worker`, lock protocol, `db.util.move`, dbm.dumb tables - against the real scheduler, farm and FSM.

Generated algorithms write, for every output value, a content that is a hash of (algorithm, value, target, the
contents of all declared inputs as loaded, epoch of the unit): unique whenever anything upstream or the epoch
changed, i.e. "content never stored before".  At quiescence the newest stored content of every (target,
algorithm, value) must equal a from-scratch evaluation in dependency order by the reference evaluator.

One interpreter stands for two kinds of process; worker-side harness patches (all listed in the evidence):
signal.signal (not in the main thread), worker.LOGGING.reassign, worker.load_context_with_overrides (would
overwrite the pipeline's own dawgie.context), DBI.reopen/close/is_reopened/is_open made aware of worker threads,
md5sum/sha1sum sub-processes answered by hashlib (calibrated in worlds/store_env), deterministic staging names.
"""

import collections

from sim import boot, core
from worlds import aegen, pipe, pipeenv, store_env

ALL = pipe.ALL
_DBI_REAL = {}
_CLIENTS = set()


def patch_dbi_for_workers():
    """worker threads (th.worker = True) see a re-opened database and go through the connector; everything else
    (reactor thread, the pipeline's own pool threads) sees the pipeline's real tables"""
    from dawgie.db.shelve.state import DBI

    if not _DBI_REAL:
        _DBI_REAL.update(reopen=DBI.reopen, close=DBI.close, is_reopened=DBI.is_reopened, is_open=DBI.is_open)

    def worker():
        th = core.current_thread()
        return th if th is not None and getattr(th, 'worker', False) else None

    def reopen(self):
        th = worker()
        if th is None:
            return _DBI_REAL['reopen'](self)
        _CLIENTS.add(th)
        return False

    def close(self):
        th = worker()
        if th is None:
            return _DBI_REAL['close'](self)
        _CLIENTS.discard(th)
        return None

    DBI.reopen = reopen
    DBI.close = close
    DBI.is_reopened = property(lambda self: (worker() in _CLIENTS) if worker() is not None else _DBI_REAL['is_reopened'].fget(self))
    DBI.is_open = property(lambda self: (worker() in _CLIENTS) if worker() is not None else _DBI_REAL['is_open'].fget(self))


class RealWorld(pipe.PipeWorld):
    def __init__(self, ch, cfg):
        base = dict(events=4, max_steps=60000, workers=2, max_total=4, max_pkgs=2, pre_versions=0, feedback=False, waiters=False,
                    mix=dict(run=1), outcome=dict(success=1, failure=0, invalid=0))
        base.update(cfg or {})
        super().__init__(ch, base)
        self.epochs = collections.Counter()
        self.written = {}  # (alg, target, value) -> list of contents written, in order
        self.units_run = 0
        self.gaps = [0.0, 5.0, 30.0, 120.0]
        self.expected_status = {}
        self.any_failure = False

    # -- construction ------------------------------------------------------------------------------
    def build(self):
        import dawgie.context as ctx
        import dawgie.pl.worker as worker
        import dawgie.pl.worker.cluster as cluster
        import dawgie.security as sec

        cfg, ch = self.cfg, self.ch
        # tiny engines of tasks and analyses only: regressions read the history of runs and feedback reads values of
        # later algorithms - for both "a from-scratch run in dependency order" is not defined
        real_generate = aegen.generate
        aegen.generate = lambda ch_, **kw: real_generate(ch_, **dict(kw, kinds=['task', 'task', 'analysis'], max_svs=1, max_vals=2, max_inputs=2))
        try:
            super().build()
        finally:
            aegen.generate = real_generate
        w = self
        self.eng.behaviour = self.behaviour
        patch_dbi_for_workers()
        _CLIENTS.clear()
        store_env.patch_hash()
        store_env.patch_tempfile()
        store_env._STG['n'] = 0
        store_env.HASH['real'] = False
        store_env.install_conn_pruning(self.sim)
        sec.connect = lambda address: core.SimSocket(w.sim, address)
        cluster.signal = type('NoSignal', (), {'signal': staticmethod(lambda *a: None), 'SIGABRT': 6})
        worker.load_context_with_overrides = lambda context: None
        worker.LOGGING = type('NoLogging', (), {'reassign': staticmethod(lambda host: None)})
        if len(self.targets0) == 0:
            import dawgie.db

            dawgie.db.open()
            dawgie.db.add('T')
            dawgie.db.close()
            self.targets0 = ['T']

    def behaviour(self, alg, data, kind):
        """the science: contents are a function of the loaded inputs and the epoch of the unit"""
        a = alg.a
        target = data._tn() if kind == 'task' else ALL
        ins = []
        if kind == 'task':
            for full, lvl, sv, val in a.inputs:
                impl = alg._impl(full)
                for svn, svobj in sorted(impl.sv_as_dict().items()):
                    if lvl != 'alg' and svn != sv:
                        continue
                    for vn in sorted(svobj):
                        if lvl == 'val' and vn != val:
                            continue
                        ins.append((full, svn, vn, getattr(svobj[vn], 'content', None)))
        else:
            for tn in sorted(data.keys()):
                for fsvn in sorted(data[tn].keys()):
                    for vn in sorted(data[tn][fsvn].keys()):
                        ins.append((tn, fsvn, vn, getattr(data[tn][fsvn][vn], 'content', None)))
        epoch = self.epochs[(a.full, target)]
        self.raise_if_chosen(a.full, target)
        for svobj in alg.state_vectors():
            for vn in sorted(svobj):
                content = aegen.content_hash(a.full, svobj.name(), vn, target, tuple(sorted(map(repr, ins))), epoch)
                svobj[vn] = aegen.GenValue(content, svobj[vn]._get_ver())
                self.written.setdefault((a.full, target, f'{svobj.name()}.{vn}'), []).append(content)
        self.units_run += 1
        self.probes['real_unit_run'] += 1
        (data if kind == 'task' else data.ds()).update()

    # -- the science may fail: ordinary exception, invalid data, or an exit/interrupt raised inside the algorithm ------
    OUTCOMES = [('ok', None), ('ok', None), ('ok', None), ('ok', None),
                ('RuntimeError', False), ('NoValidOutputDataError', None), ('NoValidInputDataError', None),
                ('SystemExit', False), ('KeyboardInterrupt', False)]

    def raise_if_chosen(self, full, target):
        if not self.cfg.get('failing'):
            return
        import dawgie

        kind, status = self.OUTCOMES[self.ch.choose('rw.outcome', len(self.OUTCOMES))]
        self.expected_status[(full, target)] = (kind, True if kind == 'ok' else status)
        if kind == 'ok':
            return
        self.any_failure = True
        self.probes['real_unit_raises_' + kind] += 1
        self.op(f'{full}[{target}] raises {kind}')
        exc = {'RuntimeError': RuntimeError, 'SystemExit': SystemExit, 'KeyboardInterrupt': KeyboardInterrupt,
               'NoValidOutputDataError': dawgie.NoValidOutputDataError, 'NoValidInputDataError': dawgie.NoValidInputDataError}[kind]
        raise exc(f'sim: {kind} inside {full}[{target}]')

    def on_reply(self, msg):
        # C05 at the worker's side of the wire: what the real worker reports is what happened to the run
        t = msg.incarnation if msg.incarnation else ALL
        exp = self.expected_status.pop((msg.jobid, t), None)
        if exp is not None:
            kind, status = exp
            if msg.success is not status:
                name = {True: 'success', False: 'failure', None: 'invalid'}
                self.violate('C05', 'outcome_misreported_by_worker', f'{kind}:reported_{name[msg.success]}',
                             f'{msg.jobid}[{t}] ended with {kind} inside the algorithm; the worker reported {name[msg.success]} '
                             f'(new values {[v for v, n in (msg.values or []) if n]}), it has to report {name[status]}')
            else:
                self.probes['real_outcome_reported_right'] += 1
        return super().on_reply(msg)

    # -- workers ----------------------------------------------------------------------------------------
    def worker_body(self, idx):
        import dawgie.context as ctx
        import dawgie.pl.worker.cluster as cluster

        def body():
            th = core.current_thread()
            inc = 0
            while not self.finished:
                inc += 1
                try:
                    cluster.execute(('sim', pipeenv.FARM_PORT), inc, 1, ctx.git_rev)
                except ValueError:  # told to leave (revision / not active): come back later
                    th.park(until=self.sim.now + 3.0, label='worker.retry')
                except ConnectionRefusedError:
                    th.park(until=self.sim.now + 5.0, label='worker.retry')
                except (SystemExit, KeyboardInterrupt):  # escaped the worker's run: the process is gone, a new one starts
                    self.probes['worker_process_exited'] += 1
                    th.park(until=self.sim.now + 1.0, label='worker.restart')
        return body

    finished = False

    # -- workload: root re-runs with a new epoch -----------------------------------------------------------------------
    def user_event(self):
        import dawgie.fe.api as api

        ch = self.ch
        if not self.db_open() or not self.fsm.is_pipeline_active():
            self.probes['user_event_skipped'] += 1
            return
        algs = [a for a in self.spec.algs]
        a = algs[ch.choose('u.alg', len(algs))]
        known = self.known_targets()
        if a.kind == 'analysis':
            targets, keys = [], [ALL]
        else:
            k = 1 + ch.choose('u.ntargets', min(2, len(known)))
            targets = sorted({known[ch.choose('u.target', len(known))] for _ in range(k)})
            keys = targets
        for t in keys:
            self.epochs[(a.full, t)] += 1
        self.op(f'user: new input data for {a.full} on {targets or [ALL]} (epoch {[self.epochs[(a.full, t)] for t in keys]}); run it')
        self.G.request([a.full], set(targets))
        api.cmd_run(runnables=[a.full], targets=targets)

    # -- the run ---------------------------------------------------------------------------------------------------------------
    def run(self):
        cfg = self.cfg
        self.hands = {}
        self.hand_worker = {}
        self.workers = []
        try:
            self.build()
            self.watch_hands()
            self.fsm = pipeenv.boot_pipeline(self.sim, max_steps=2000)
            self.op('pipeline is running')
            self.threads = []
            for i in range(cfg['workers']):
                th = self.sim.spawn(f'worker-{i}', self.worker_body(i))
                th.worker = True
                self.threads.append(th)
            self.user = pipe.User(self)
            self.user.at = 40.0
            self.sim.actors.append(self.user)
            r = self.sim.run(until=lambda: self.user.done or self.stopped, max_steps=cfg['max_steps'])
            if r == 'until' and not self.stopped:
                self.drain()
            else:
                self.probes['budget_' + r] += 1
        except pipe.Stop:
            pass
        finally:
            self.finished = True
            try:
                self.final_checks()
            finally:
                pipeenv.close_db()
                if getattr(self, 'dir', None):
                    pipeenv.cleanup(self.dir)
        return self.result()

    def drain(self):
        import dawgie.pl.schedule as schedule

        G, sim = self.G, self.sim
        r = sim.run(until=lambda: (G.idle() and not G.handed and not schedule.que) or self.stopped, max_steps=self.cfg['max_steps'] * 2,
                    max_time=sim.now + 4000.0)
        dead = [th.name for th in self.threads if th.exc is not None]
        if dead:
            raise core.HarnessError(f'worker thread died: {[(th.name, repr(th.exc)) for th in self.threads if th.exc is not None]}')
        if r != 'until' or self.stopped:
            self.probes['drain_' + r] += 1
            return
        self.probes['quiesced'] += 1
        if self.any_failure:
            self.probes['end_state_not_compared_after_failures'] += 1  # 'from scratch' is defined for runs that succeed
            return
        self.end_state_check()

    # -- oracle: stored results at quiescence == from-scratch evaluation -------------------------------------------------
    def from_scratch(self):
        """reference evaluator: every (algorithm, target) once, in dependency order, with the final epochs"""
        ref, spec = self.ref, self.spec
        known = sorted(self.known_targets())
        out = {}  # (alg, target, 'sv.v') -> content
        for a in spec.algs:  # spec.algs is a topological order
            for target in ([ALL] if a.kind == 'analysis' else known):
                ins = []
                if a.kind == 'task':
                    for full, lvl, sv, val in a.inputs:
                        y = spec.by[full]
                        ytarget = ALL if y.kind == 'analysis' else target
                        for svn, _svv, vals in sorted(y.svs):
                            if lvl != 'alg' and svn != sv:
                                continue
                            for vn, _vv in sorted(vals):
                                if lvl == 'val' and vn != val:
                                    continue
                                ins.append((full, svn, vn, out.get((full, ytarget, f'{svn}.{vn}'))))
                else:
                    wanted = ref.inputs[a.full]
                    rows = []
                    for (full, tn, svvn), content in out.items():
                        sv, vn = svvn.split('.')
                        if f'{full}.{sv}.{vn}' in wanted:
                            rows.append((tn, f'{full}.{sv}', vn, content))
                    ins = sorted(rows)
                epoch = self.epochs[(a.full, target)]
                for svn, _svv, vals in a.svs:
                    for vn, _vv in sorted(vals):
                        out[(a.full, target, f'{svn}.{vn}')] = aegen.content_hash(a.full, svn, vn, target, tuple(sorted(map(repr, ins))), epoch)
        return out

    def stored_latest(self):
        import dawgie.db
        import dawgie.db.util as dbu
        from dawgie.db.shelve.state import DBI
        from dawgie.db.shelve import util

        dbi = DBI()
        best = {}
        for key, blob in dbi.tables.prime.items():
            run, tid, tskid, aid, sid, vid = eval(key)  # noqa: S307  (the catalogue's own key format)
            target = util.dissect(dbi.indices.target[tid])[1]
            task = util.dissect(dbi.indices.task[tskid])[1]
            alg = util.dissect(dbi.indices.alg[aid])[1]
            sv = util.dissect(dbi.indices.state[sid])[1]
            val = util.dissect(dbi.indices.value[vid])[1]
            if sv == '__metric__':
                continue
            k = (f'{task}.{alg}', target, f'{sv}.{val}')
            if k not in best or best[k][0] < run:
                best[k] = (run, blob)
        return {k: getattr(dbu.decode(blob), 'content', None) for k, (run, blob) in best.items()}

    def end_state_check(self):
        want = self.from_scratch()
        got = self.stored_latest()
        self.probes['end_state_checked'] += 1
        self.probes['end_state_values'] += len(want)
        bad = []
        for k in sorted(want):
            if got.get(k) != want[k]:
                hist = self.written.get(k, [])
                bad.append((k, 'never stored' if k not in got else ('a superseded result' if got[k] in hist else 'unknown content')))
        if bad:
            k, what = bad[0]
            self.violate('C02', 'end_state_differs_from_scratch', f'{self.ref.kind[k[0]]}:{what.replace(" ", "_")}',
                         f'at quiescence {len(bad)} of {len(want)} stored values differ from a from-scratch run in dependency order with the final inputs; '
                         f'first: {k[0]}[{k[1]}].{k[2]} holds {what} (written in order {self.written.get(k, [])[-4:]}, from scratch {want[k]}); '
                         f'all: {[b[0] for b in bad][:6]}')

    def result(self):
        r = super().result()
        r['nontrivial'] = bool((self.probes['end_state_checked'] or self.any_failure) and self.units_run >= 3 and self.sim.counts['sched.reordered'] > 0)
        r['units_run'] = self.units_run
        return r


def warmup():
    pipe.warmup()
    store_env.calibrate_hash()
    return True


def run(ch, cfg):
    return RealWorld(ch, cfg).run()
