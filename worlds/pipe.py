"""W-PIPE with scripted workers: the real scheduler, farm, FSM, shelve and
chronicle driven by actors that speak the real wire protocol.

Ground truth G (class Truth) is built from *observed* events only: releases
(messages entering the farm's cluster queue), hand-outs (task messages given
to a worker connection), replies handed to the farm, requests the harness
injected, and the reference evaluator of aegen.Ref.  The oracles of C01-C05,
C11, C18(a) are evaluated on G while the run proceeds.
"""

import collections
import json
import os
import struct

from sim import boot, core
from worlds import aegen, pipeenv

ALL = '__all__'
TARGET_POOL = ['T', 'Tx', 'T_', 'U', 'u', 'T2']


class Stop(Exception):
    pass


# --------------------------------------------------------------------------
# framing helper for event driven actors
# --------------------------------------------------------------------------


class MsgEndpoint:
    """client end of a farm connection, event driven (no thread)"""

    def __init__(self, sim, port, on_msg, on_close=None, host='10.0.1.1', cert=None):
        import dawgie.pl.message as message

        self.message = message
        self.buf = b''
        self.on_msg, self.on_close = on_msg, on_close
        self.closed = False
        self.lost_after_close = 0
        self.conn = sim.connect(port, self, host=host, cert=cert)

    def on_data(self, data):
        self.buf += data
        while len(self.buf) >= 4:
            n = struct.unpack('>I', self.buf[:4])[0]
            if len(self.buf) < 4 + n:
                break
            raw, self.buf = self.buf[4:4 + n], self.buf[4 + n:]
            if self.closed:
                self.lost_after_close += 1
                continue
            self.on_msg(self.message.loads(raw))

    def on_eof(self):
        self.closed = True
        if self.on_close:
            self.on_close('eof')

    def on_reset(self):
        self.closed = True
        if self.on_close:
            self.on_close('reset')

    def send(self, msg):
        raw = self.message.dumps(msg)
        self.conn.client_send(struct.pack('>I', len(raw)) + raw)

    def close(self):
        self.closed = True
        self.conn.client_close()


# --------------------------------------------------------------------------
# ground truth
# --------------------------------------------------------------------------


class Truth:
    def __init__(self, world, ref):
        self.w = world
        self.ref = ref
        self.must = collections.defaultdict(set)
        self.opt = collections.defaultdict(set)
        self.inflight = collections.Counter()
        self.why = {}  # (algorithm, target) -> why it is owed: request | new_value | version | timer
        self.converting = set()  # released by the scheduler, not yet turned into a task message by the farm
        self.queued = []  # released, not handed: (jobid, target, runid)
        self.handed = {}  # unit -> worker conn id  (handed, unanswered)
        self.epoch = 0  # bumped at every (re)load
        self.unit_epoch = {}
        self.released_total = 0
        self.replies = 0
        self.runid_of = {}

    def pending(self, alg):
        return self.must[alg] | self.opt[alg]

    def blocking(self, alg):
        """what counts as pending for an upstream algorithm: everything owed, and
        the optional entries (leniency after a failure) only if the code kept them"""
        held = set()
        n = self.w.nodes().get(alg)
        if n is not None:
            held = set(n.get('todo'))
        return self.must[alg] | (self.opt[alg] & held)

    def idle(self):
        if self.inflight or self.queued or any(self.must.values()):
            return False
        return not any(self.blocking(a) for a in list(self.opt) if self.opt[a])

    def nothing_owed(self):
        return not any(self.must.values())

    def targets_for(self, alg, targets):
        """what organize() is documented to add for `alg` given a target set"""
        if self.ref.kind[alg] == 'analysis':
            return {ALL}
        if ALL in targets:
            return set(self.w.known_targets())
        return set(targets)

    def request(self, algs, targets, runid=None, why='request'):
        for alg in algs:
            if alg not in self.ref.kind:
                continue
            ts = self.targets_for(alg, targets)
            self.must[alg] |= ts
            for t in ts:
                self.why.setdefault((alg, t), why)
            self.runid_of[alg] = runid

    def reload(self):
        self.epoch += 1
        self.must.clear()
        self.opt.clear()
        self.inflight.clear()
        self.why.clear()
        self.converting.clear()
        self.queued.clear()
        self.handed.clear()
        self.runid_of.clear()


class Worker:
    """scripted worker actor: register / wait / task / (status) / response"""

    def __init__(self, world, idx):
        self.w, self.idx = world, idx
        self.sim = world.sim
        self.host = f'10.0.2.{idx % 3}'
        self.inc = 0
        self.state = 'idle'
        self.at = 0.0
        self.ep = None
        self.task = None
        self.registered_rev = None
        self.got_task = False
        self.outcome = None

    again = None  # (when, message): an answer that is delivered a second time

    def next_time(self, now):
        ts = [self.at] if self.state in ('idle', 'working') else []
        if self.again is not None:
            ts.append(self.again[0])
        return min(ts) if ts else None

    def enabled(self, now):
        out = []
        if self.state in ('idle', 'working') and self.at <= now + 1e-12:
            out.append((f'w{self.idx}.{self.state}', self.act))
        if self.again is not None and self.again[0] <= now + 1e-12:
            out.append((f'w{self.idx}.reply_again', self.send_again))
        return out

    def send_again(self):
        _when, msg = self.again
        self.again = None
        if not self.w.cfg['faults']:
            return  # the liveness phase runs without faults
        try:
            ep = MsgEndpoint(self.sim, pipeenv.FARM_PORT, lambda _m: None, host=self.host)
        except ConnectionRefusedError:
            return
        self.w.op(f'w{self.idx}: the answer for {msg.jobid}[{msg.incarnation or ALL}] run={msg.runid} is delivered a second time')
        self.w.probes['reply_delivered_twice'] += 1
        ep.send(msg)
        ep.close()

    def act(self):
        if self.state == 'idle':
            self.register()
        elif self.state == 'working':
            self.reply()

    def register(self):
        import dawgie.context as ctx
        import dawgie.pl.message as message

        w, ch = self.w, self.w.ch
        rev = ctx.git_rev
        if w.cfg['faults'] and ch.flip('w.stale_rev', 1, 12):
            # a worker of another release: unrelated label, no label, an abbreviation of the current one, the
            # release it registered with last time, or a longer label that starts with the current one
            cur = str(rev)
            alts = ['stale', '', cur[:-1], self.registered_rev if self.registered_rev is not None else 'stale', cur + '0']
            alts = [a for a in alts if a != cur] or ['stale']
            rev = alts[ch.choose('w.stale_kind', len(alts))]
            w.sim.count('fault.worker_stale_revision')
            w.probes['stale_rev_prefix_related'] += bool(rev == '' or cur.startswith(rev) or rev.startswith(cur))
        self.inc += 1
        self.got_task = False
        try:
            self.ep = MsgEndpoint(self.sim, pipeenv.FARM_PORT, self.on_msg, self.on_close, host=self.host)
        except ConnectionRefusedError:
            self.at = self.sim.now + 5.0
            return
        self.registered_rev = rev
        w.on_register(self, rev)
        self.ep.send(message.make(typ=message.Type.register, inc=self.inc, rev=rev))
        self.state = 'waiting'

    def on_msg(self, m):
        import dawgie.pl.message as message

        w, ch = self.w, self.w.ch
        if self.state != 'waiting':
            return
        if m.type == message.Type.wait:
            if w.cfg['faults'] and ch.flip('w.drop_waiting', 1, 40):
                w.sim.count('fault.worker_disconnect_waiting')
                self.ep.conn.reset('reset')
            return
        if m.type == message.Type.task:
            w.on_task_received(self, m)
            self.task = m
            info = w.hands.get(id(self.ep.conn.proto)) or {}
            self.task_epoch = info.get('task_epoch', w.G.epoch)  # the load during which the task was handed out
            self.task_at = self.sim.now
            self.got_task = True
            self.ep.close()
            if w.cfg['faults'] and ch.flip('w.die', 1, 25):
                w.sim.count('fault.worker_dies_with_task')
                w.dead_units.add((m.jobid, m.target or ALL))
                self.state = 'idle'
                self.at = self.sim.now + 30.0
                return
            self.state = 'working'
            self.at = self.sim.now + w.delays[ch.choose('w.work_time', len(w.delays))]
            return
        # abort / anything else: leave and come back later
        self.state = 'idle'
        self.at = self.sim.now + 2.0 + ch.choose('w.retry', 3) * 3.0

    def on_close(self, why):
        if self.state == 'waiting':
            self.state = 'idle'
            self.at = self.sim.now + 1.0 + self.w.ch.choose('w.retry', 3) * 3.0

    def reply(self):
        """the real worker first asks for the pipeline's status with its own revision
        (worker.Context.abort) and drops its result when told to abort"""
        import dawgie.pl.message as message

        w = self.w
        try:
            self.poll = MsgEndpoint(self.sim, pipeenv.FARM_PORT, self.on_status, self.on_status_closed, host=self.host)
        except ConnectionRefusedError:
            self.state, self.at = 'idle', self.sim.now + 5.0
            return
        self.state = 'polling'
        self.poll.send(message.make(typ=message.Type.status, rev=self.registered_rev))

    def on_status(self, m):
        import dawgie.pl.message as message

        if self.state != 'polling':
            return
        self.w.on_status_reply(self, m)
        if m.type == message.Type.response and not m.success:
            self.w.on_result_dropped(self, self.task)
            self.task = None
            self.state, self.at = 'idle', self.sim.now + 2.0
            return
        self.state = 'replying'
        self.really_reply()

    def on_status_closed(self, why):
        if self.state == 'polling':  # no answer: the real worker would raise; the result is lost
            self.w.on_result_dropped(self, self.task)
            self.task = None
            self.state, self.at = 'idle', self.sim.now + 2.0

    def really_reply(self):
        import dawgie.pl.message as message

        w, ch, m = self.w, self.w.ch, self.task
        outcome, values = w.decide_outcome(m)
        self.outcome = outcome
        # the real worker stamps timing['started']; here the stamp also identifies the execution
        stamp = f'w{self.idx}#{self.inc}@{self.task_at:.3f}'
        w.stamps[stamp] = self.task_epoch
        msg = message.make(typ=message.Type.response, inc=m.target, jid=m.jobid, rid=m.runid,
                           suc=outcome, tim=dict(m.timing or {}, started=stamp), val=values)
        try:
            ep = MsgEndpoint(self.sim, pipeenv.FARM_PORT, lambda _m: None, host=self.host)
        except ConnectionRefusedError:
            self.state, self.at = 'idle', self.sim.now + 5.0
            return
        if outcome is True:
            w.store_as_worker(m, values)
        w.on_reply_sent(self, m, outcome, values)
        ep.send(msg)
        ep.close()
        if w.cfg['faults'] and ch.flip('w.reply_again', 1, 12):
            # the same answer is delivered once more later (a retried delivery): it belongs to no execution in flight
            w.sim.count('fault.reply_delivered_twice')
            self.again = (self.sim.now + [1.0, 10.0, 40.0, 150.0][ch.choose('w.reply_again_after', 4)], msg)
        self.task = None
        self.state = 'idle'
        self.at = self.sim.now + ch.choose('w.rest', 3) * 0.5


class User:
    """injects the external events of the workload"""

    def __init__(self, world):
        self.w = world
        self.n = 0
        self.at = 0.0
        self.done = False

    def next_time(self, now):
        return None if self.done else self.at

    def enabled(self, now):
        if not self.done and self.at <= now + 1e-12:
            return [('user', self.act)]
        return []

    def act(self):
        w, ch = self.w, self.w.ch
        self.n += 1
        w.user_event()
        if self.n >= w.cfg['events']:
            self.done = True
            w.user_done_at = w.sim.now
        else:
            self.at = w.sim.now + w.gaps[ch.choose('u.gap', len(w.gaps))]


DEFAULT_CFG = dict(
    prop='C03', events=12, max_steps=900, workers=3, faults=False, tail_ticks=None,
    mix=dict(run=6, rerun_executing=2, add_target=1, run_all=1, run_empty=0, update=0),
    outcome=dict(success=6, failure=1, invalid=1), max_total=7, max_pkgs=3,
    pre_versions=2, stop_on=None, net=False, record_on_run=False, graph_edits=True,
)


class PipeWorld:
    props = ('C01', 'C02', 'C03', 'C04', 'C05', 'C11', 'C18')

    def __init__(self, ch, cfg):
        self.ch = ch
        self.cfg = dict(DEFAULT_CFG)
        self.cfg.update(cfg or {})
        self.sim = boot.setup()
        self.violations = []
        self.probes = collections.Counter()
        self.ops = []
        self.delays = [0.01, 1.0, 4.0, 6.0, 30.0, 200.0]
        self.gaps = [0.0, 0.5, 3.0, 7.0, 20.0, 100.0]
        self.dead_units = set()
        self.stamps = {}
        self.handed_log = set()
        self.user_done_at = None
        self.chron = []
        self.stop_on = set(self.cfg['stop_on'] or [self.cfg['prop']])
        if self.cfg.get('many_targets'):
            # with hundreds of targets a run that has lost a unit would grind through a liveness phase of hundreds of
            # dispatch periods: it ends at the first sign of it, whatever property is being checked
            self.stop_on |= {'C03', 'C04', 'C11'}
        self.nontrivial = False
        self.stopped = False
        self.vcount = collections.Counter()

    # -- reporting ---------------------------------------------------------
    def violate(self, prop, rule, sig, msg):
        if self.stopped:
            return
        v = dict(property=prop, rule=rule, signature=sig, message=msg, step=self.sim.steps, t=round(self.sim.now, 3))
        key = (prop, rule, sig)
        self.vcount[key] += 1
        if self.vcount[key] > 1:
            return
        self.violations.append(v)
        self.op(f'VIOLATION {prop}/{rule} {sig}: {msg}')
        if prop in self.stop_on:
            # never raise through the code under test (it has bare excepts): the run ends after this step
            self.stopped = True

    def op(self, text):
        if len(self.ops) < 400:
            self.ops.append(f'[{self.sim.steps}@{self.sim.now:.2f}] {text}')

    def known_targets(self):
        import dawgie.db

        from dawgie.db.shelve.state import DBI

        try:
            if DBI().is_reopened:  # the archive step is between its reopen() and its close(): as good as closed
                raise RuntimeError('reopened')
            self._known = dawgie.db.targets()
        except RuntimeError:  # database closed (reload window): last known list
            self.probes['targets_asked_while_db_closed'] += 1
        return list(getattr(self, '_known', []))

    def db_open(self):
        from dawgie.db.shelve.state import DBI

        return DBI().is_open

    # -- world construction ------------------------------------------------
    def build(self):
        import dawgie
        import dawgie.db
        import dawgie.pl.scan as scan
        import dawgie.pl.version as version

        ch, cfg = self.ch, self.cfg
        net = core.NetCfg(chunk=(1, 12), delay=(1, 6), coalesce=(1, 4)) if cfg['net'] else core.NetCfg()
        self.sim.fresh(ch, net=net)
        boot.set_epoch(boot.EPOCH)
        boot._state['skew'] = 0.0
        self.spec = aegen.generate(ch, max_pkgs=cfg['max_pkgs'], max_total=cfg['max_total'],
                                   feedback=cfg.get('feedback', True), self_refs=cfg.get('self_refs', False))
        # the engine's base package may be dotted (DAWGIE_AE_BASE_PACKAGE=proj.ae): names are cut relative to it
        self.spec.base = ['vae', 'vae', 'vproj.ae'][ch.choose('gen.base_package', 3)]
        self.ref = aegen.Ref(self.spec)
        self.G = Truth(self, self.ref)
        self.eng = aegen.Engine(self.spec)
        self.eng.install()
        pipeenv.reset_globals()
        self.dir = pipeenv.rundir()
        pipeenv.configure(self.dir, base=self.spec.base)
        order = []
        rest = list(range(len(self.spec.pkgs)))
        while rest:
            order.append(rest.pop(ch.choose('gen.pkgorder', len(rest))))
        self.factories = self.eng.factories(order)
        self.pending = None
        self.rev_n = 0

        def for_factories(ae, pkg):
            # the real scanner imports the engine's packages (FSM._pipeline forgets them right before, scan.reset);
            # the in-memory stand-in puts its modules back the same way
            self.commit_update()
            self.eng.install()
            return self.factories

        scan.for_factories = for_factories
        nt = ch.choose('gen.ntargets', 5)
        pool = list(TARGET_POOL)
        self.targets0 = [pool.pop(ch.choose('gen.target', len(pool))) for _ in range(nt)]
        if cfg.get('many_targets'):
            # a survey: hundreds of targets known to the database (anything per-release or per-tick that is bounded shows)
            lo, hi = cfg['many_targets']
            self.targets0 = [f'M{i:03d}' for i in range(lo + ch.choose('gen.many', hi - lo + 1))]
        self.op(f'engine: {self.spec.brief()}')
        self.op(f'targets: {self.targets0}')
        # pre-populate: targets and the persisted versions of a subset of algorithms
        dawgie.db.open()
        quiet_db_listener(self.sim)
        for t in self.targets0:
            dawgie.db.add(t)
        self.recorded = set()
        mode = ch.choose('gen.prever', 3) if cfg['pre_versions'] else 0
        for a in self.spec.algs:
            rec = mode == 2 or (mode == 1 and ch.flip('gen.prever1', 1, 2))
            if cfg['pre_versions'] == 2 and mode == 0:
                rec = ch.flip('gen.prever0', 3, 4)
            if rec:
                fac = self.eng.factory(a.pkg, a.kind)
                version.record(fac(a.pkg), only=a.name)
                self.recorded.add(a.full)
        dawgie.db.close()
        self.op(f'persisted versions of: {sorted(self.recorded)}')
        self.install_monitors()

    # -- monitors -----------------------------------------------------------
    def install_monitors(self):
        import dawgie.pl.farm as farm
        import dawgie.pl.schedule as schedule
        import dawgie.pl.logger.chronicle as chronicle

        w = self
        self.real = dict(_put=_orig(farm, '_put'), _res=_orig(farm.Hand, '_res'), do=_orig(farm.Hand, 'do'),
                         njb=_orig(schedule, 'next_job_batch'), build=_orig(schedule, 'build'),
                         append=_orig(chronicle, 'append'), dispatch=_orig(farm, 'dispatch'))
        real = self.real

        def _put(job, runid, target, where):
            w.on_release(job, runid, target)
            return real['_put'](job, runid, target, where)

        def _res(msg):
            return w.on_reply(msg)

        def do(hand, task):
            w.on_hand(hand, task)
            return real['do'](hand, task)

        def next_job_batch():
            return w.on_batch()

        def build(factories, latest, previous):
            import dawgie.db

            persisted = dawgie.db.versions()  # the public call, read just before the load (C15)
            r = real['build'](factories, latest, previous)
            w.on_build(latest, previous, persisted)
            return r

        real_sendall = _orig(farm.Hand, 'sendall')

        def sendall(hand, b):
            w.on_server_send(hand, b)
            return real_sendall(hand, b)

        farm.Hand.sendall = sendall
        real_clear = _orig(farm, 'clear')

        def clear():
            w.check_load_notified()  # load() calls notify_all() and then clear() in one reactor step
            r = real_clear()
            w.G.reload()  # the (re)load boundary: everything released before is abandoned by the pipeline
            w.probes['farm_cleared'] += 1
            return r

        farm.clear = clear

        def append(entry):
            if w.cfg['faults'] and w.cfg.get('journal_faults', True) and w.in_reply and w.ch.flip('fault.journal', 1, 20):
                # disk error under the history journal (full disk): the write fails before anything reaches the file
                import errno

                w.sim.count('fault.journal_write_fails')
                w.reply_fault = True
                e = OSError(errno.ENOSPC, 'No space left on device (sim)')
                e.sim_injected = True  # raised from a harness frame on purpose: the reactor sees it as the code's own
                raise e
            r = real['append'](entry)
            w.chron.append((entry['task'], entry['target'], entry['runid'], entry['status']))
            return r

        def dispatch():
            # C11: the tick that takes the pipeline out of the active state (idle + new data: archive) still tells the
            # waiting workers to leave
            import dawgie.context as ctx

            was = hasattr(ctx, 'fsm') and ctx.fsm.is_pipeline_active()
            r = real['dispatch']()
            if was and not ctx.fsm.is_pipeline_active():
                w.probes['dispatch_left_active_state'] += 1
                w.check_load_notified(rule='waiting_worker_not_dismissed_when_leaving_active', mark=False)
            return r

        farm.dispatch = dispatch
        farm._put = _put
        farm.Hand._res = staticmethod(_res)
        farm.Hand.do = do
        schedule.next_job_batch = next_job_batch
        schedule.build = build
        chronicle.append = append
        self.sim.after_step.append(self.after_step)
        self.active_at_step_start = False
        self.in_reply = self.reply_fault = False
        self.answered = set()
        self.released_why = {}
        import dawgie
        import dawgie.db

        real_next = _orig(dawgie.db, 'next')

        def db_next():
            if w.cfg['faults'] and w.ch.flip('fault.db_next', 1, 12):
                w.sim.count('fault.db_next_raises')
                w.op('fault: dawgie.db.next() raises (database error while drawing a run id)')
                raise RuntimeError('sim: database error while drawing a run id')
            return real_next()

        dawgie.db.next = db_next
        # what introspection (navel gaze) learns about past resource use: chooser-chosen hints, some of them 'cloud'
        import dawgie.pl.resources as resources

        def distribution(_metrics):
            out = {}
            for a in w.spec.algs:
                for t in [ALL] + list(TARGET_POOL):
                    if w.ch.flip('gen.insight', 1, 6):
                        out[f'{t}.{a.full}'] = resources.HINT(cpu=1.0, io=0, memory=0, pages=0,
                                                             summary=[dawgie.Distribution.cloud, dawgie.Distribution.cluster][w.ch.choose('gen.insight_where', 2)])
            w.probes['insights_given'] += len(out)
            return out

        resources.distribution = distribution

    def nodes(self):
        import dawgie.pl.schedule as schedule

        ae = schedule.ae
        if ae is None:
            return {}
        if getattr(self, '_nodes_of', None) is not ae:
            out = {}
            for r in ae.at:
                for n in r.iter():
                    out[n.tag] = n
            self._nodes_of, self._nodes = ae, out
        return self._nodes

    def snap(self):
        import dawgie.pl.schedule as schedule

        s = {}
        for tag, n in self.nodes().items():
            s[tag] = (tuple(n.get('todo')), frozenset(n.get('doing')), frozenset(n.get('do')))
        return s, [j.tag for j in schedule.que]

    # -- observed events ----------------------------------------------------
    def commit_update(self):
        """the (re)load is about to scan the software: a pending update becomes the software in hand"""
        if getattr(self, 'pending', None) is None:
            return
        self.spec = self.pending
        self.pending = None
        self.ref = aegen.Ref(self.spec)
        self.G.ref = self.ref
        self.eng = aegen.Engine(self.spec)
        self.eng.install()
        self.factories = self.eng.factories(self.pkg_order(self.spec))
        self.probes['software_update_loaded'] += 1

    def pkg_order(self, spec):
        order, rest = [], list(range(len(spec.pkgs)))
        while rest:
            order.append(rest.pop(self.ch.choose('gen.pkgorder', len(rest))))
        return order

    def on_build(self, latest, previous, persisted):
        """a (re)load just rebuilt the schedule: G restarts from what the reference says must be
        scheduled; C15 (second sentence) and C09 are decided here, C11's load clause too"""
        import dawgie.pl.schedule as schedule

        G = self.G
        G.reload()
        self._nodes_of = None
        known = self.known_targets()
        expect = aegen.unrecorded(self.spec, persisted)
        for a in self.spec.algs:
            if a.full in expect:
                ts = {ALL} if a.kind == 'analysis' else set(known)
                G.must[a.full] |= ts
                for t in ts:
                    G.why[(a.full, t)] = 'version'
        self.probes['build'] += 1
        if self.probes['build'] > 1:
            self.probes['rebuild'] += 1
        # ---- C15: exactly the algorithms with an unrecorded version, each for all known targets ----
        nodes = self.nodes()
        for a in self.spec.algs:
            n = nodes.get(a.full)
            if n is None:
                continue  # C09 reports it
            got = set(n.get('todo'))
            want = set(G.must[a.full]) if a.full in expect else set()
            if got != want:
                if a.full in expect:
                    rule, sig = 'new_version_not_scheduled', ('analysis' if a.kind == 'analysis' else 'targets')
                    self.probes['x'] += 0
                else:
                    rule, sig = 'scheduled_without_version_change', a.kind
                self.violate('C15', rule, sig, f'(re)load {self.probes["build"]}: {a.full} ({a.kind}) has pending {sorted(got)}, '
                             f'reference says {sorted(want)}; persisted versions alg={persisted[1].get(a.full)}')
        if expect:
            self.probes['load_with_new_versions'] += 1
        if expect and len(expect) < len(self.spec.algs):
            self.probes['load_with_some_new_some_old'] += 1
        inq = sorted(j.tag for j in schedule.que)
        wantq = sorted(a for a in expect if G.must[a])
        if inq != wantq:
            self.violate('C15', 'queue_after_load', 'que', f'(re)load: work queue {inq}, reference {wantq}')
        self.check_graph()

    # -- C09 ------------------------------------------------------------------
    @staticmethod
    def walk(roots):
        seen, edges, stack = {}, set(), list(roots)
        while stack:
            n = stack.pop()
            if n.tag in seen:
                continue
            seen[n.tag] = n
            for c in n:
                if c.tag != n.tag:
                    edges.add((n.tag, c.tag))
                stack.append(c)
        return seen, edges

    def check_graph(self):
        import dawgie.pl.schedule as schedule

        ae, ref = schedule.ae, self.ref
        self.probes['graph_checked'] += 1
        algs = set(ref.kind)
        for name, roots, depth in (('task', ae.tt, 1), ('alg', ae.at, 2), ('sv', ae.svt, 3), ('value', ae.vt, 4)):
            seen, edges = self.walk(roots)
            want_nodes = {'.'.join(v.split('.')[:depth]) for a in algs for v in ref.values[a]}
            want_edges = ref.edges(depth)
            if set(seen) != want_nodes:
                self.violate('C09', 'node_set', name, f'{name} graph nodes: missing {sorted(want_nodes - set(seen))} extra {sorted(set(seen) - want_nodes)}')
            if edges != want_edges:
                self.violate('C09', 'edge_set', name, f'{name} graph edges: missing {sorted(want_edges - edges)} extra {sorted(edges - want_edges)}')
            if depth == 2:
                for tag, n in seen.items():
                    anc = set(n.get('ancestry') or ())
                    if anc != ref.anc.get(tag, set()):
                        self.violate('C09', 'ancestry', 'closure', f'{tag}: ancestry {sorted(anc)} reference closure {sorted(ref.anc.get(tag, set()))}')
                    par = {p.tag for p in (n.get('parents') or ())}
                    if par != ref.parents.get(tag, set()):
                        self.violate('C09', 'parents', 'direct', f'{tag}: parents {sorted(par)} reference {sorted(ref.parents.get(tag, set()))}')
                # exactly one node object per algorithm
                objs = {}
                for r in roots:
                    for n in r.iter():
                        objs.setdefault(n.tag, set()).add(id(n))
                dup = sorted(t for t, o in objs.items() if len(o) > 1)
                if dup:
                    self.violate('C09', 'node_set', 'duplicate_node', f'more than one node object for {dup}')
        fb = {v: '.'.join(c.split('.')[:2]) for v, c in ae.feedbacks.items()}
        if fb != ref.feedbacks:
            self.violate('C09', 'feedback_map', 'consumer', f'fed-back values map to {fb}, declared {ref.feedbacks}')
        if ref.feedbacks:
            self.probes['graph_with_feedback'] += 1
        if any(len(ref.parents[a]) >= 2 for a in algs):
            self.probes['graph_with_join'] += 1

    def check_load_notified(self, rule='waiting_worker_not_dismissed_at_load', mark=True):
        """C11: at (re)load - and when a dispatch tick takes the pipeline out of the active state - every waiting worker
        was told to leave (abort + close)"""
        import dawgie.pl.message as message

        for info in self.hands.values():
            if info['registered'] and not info['lost'] and not info['tasks'] and not info.get('dismissed'):
                tr = info['hand'].transport
                last = info.get('last_sent')
                ok = last is not None and last.type == message.Type.response and last.success is False and (tr.disconnecting or tr.disconnected)
                if not ok:
                    self.violate('C11', rule, 'load' if mark else 'archive', f'a registered idle worker was not told to leave (abort + close) although the pipeline stopped being active (last message {last})')
                info['dismissed'] = True
                self.probes['worker_dismissed_at_load' if mark else 'worker_dismissed_when_leaving_active'] += 1

    def on_server_send(self, hand, b):
        """every message the farm writes to a worker connection (C11)"""
        import dawgie.context as ctx
        import dawgie.pl.message as message

        try:
            m = message.loads(b[4:])
        except Exception:  # noqa
            return
        info = self.hands.get(id(hand))
        if info is not None:
            info['last_sent'] = m
        # independent of the code's own predicate: active = state running and no transition in progress
        active = hasattr(ctx, 'fsm') and ctx.fsm.state == 'running' and ctx.fsm.transitioning.name == 'active'
        if m.type in (message.Type.task, message.Type.wait) and not active:
            self.violate('C11', 'sent_while_inactive', m.type.name, f'{m.type.name} message written to a worker while the pipeline is not active (state {ctx.fsm.state})')
        if m.type == message.Type.response and m.success is True and not active:
            self.violate('C11', 'status_proceed_while_inactive', 'status', f'status poll answered proceed while the pipeline is not active (state {ctx.fsm.state})')

    def on_batch(self):
        import dawgie.context as ctx
        import dawgie.pl.schedule as schedule

        G, ref = self.G, self.ref
        before, _q = self.snap()
        # C04 (ii): what this dispatch has to release, judged on the state before it
        expect = []
        if ctx.fsm.is_pipeline_active() and not schedule.is_paused():
            for alg in list(G.must):
                for t in sorted(G.must[alg]):
                    if not (self.blocked(alg, t) or G.inflight[(alg, t)]):
                        expect.append((alg, t))
        jobs = self.real['njb']()
        released = {(j.tag, t) for j in jobs for t in j.get('do')} - G.converting
        if released:
            self.probes['batch_nonempty'] += 1
        # the scheduler just moved these units from pending to executing: this is the release the properties
        # speak of; the farm turns them into task messages right away, or at a later tick when that step faults
        for j in jobs:
            for t in sorted(j.get('do')):
                if (j.tag, t) in released:
                    self.on_sched_release(j.tag, t)
        for alg, t in expect:
            if (alg, t) not in released and t not in before.get(alg, ((), (), ()))[2]:
                import dawgie.pl.farm as farm

                anc = {a: (before.get(a), sorted(G.must[a]), {k: v for k, v in G.inflight.items() if k[0] == a}) for a in sorted(self.ref.anc[alg])}
                self.also_owed(alg, t, 'not released by the dispatch at which all its upstream work was idle')
                self.violate('C04', 'runnable_not_released', f'{self.ref.kind[alg]}',
                             f'{alg}[{t}] is pending, all upstream idle, not released by this dispatch; '
                             f'code todo/doing/do before={before.get(alg)}; upstream (code state, owed, in flight): {anc}; '
                             f'being dispatched: {[j.tag for j in getattr(farm, "_jobs", ())]}')
        return jobs

    def also_owed(self, alg, t, what):
        """an obligation that is not honoured also breaks the property that created it"""
        why = self.G.why.get((alg, t))
        if why == 'new_value':
            self.violate('C02', 'rerun_after_new_value_not_released', self.ref.kind[alg],
                         f'{alg}[{t}] must run again because one of its declared inputs was reported new, but it is {what}')
        elif why == 'version':
            self.violate('C15', 'new_version_never_released', self.ref.kind[alg],
                         f'{alg}[{t}] was owed at the (re)load because of a version that is not persisted, but it is {what}')

    def blocked(self, alg, t):
        G = self.G
        for a in self.ref.anc[alg]:
            if t == ALL:
                if G.blocking(a) or any(k[0] == a and v for k, v in G.inflight.items()):
                    return True
            else:
                if t in G.blocking(a) or ALL in G.blocking(a) or G.inflight[(a, t)] or G.inflight[(a, ALL)]:
                    return True
        return False

    def on_sched_release(self, alg, t):
        G, ref = self.G, self.ref
        if alg not in ref.kind:
            self.violate('C09', 'unknown_node_released', alg, 'released a node that is not a declared algorithm')
            return
        # C03 (i)
        if G.inflight[(alg, t)]:
            self.probes['rerequest_released_while_doing'] += 1
            self.violate('C03', 'two_in_flight', 'pending_again_while_doing',
                         f'{alg}[{t}] released while an execution of it is still in flight')
        # C02 minimality
        if t not in G.pending(alg):
            self.violate('C02', 'ran_without_cause', ref.kind[alg],
                         f'{alg}[{t}] released but nothing requested it, no input was reported new, no version/timer cause')
        # C01
        for a in sorted(ref.anc[alg]):
            bad = None
            pend = G.blocking(a)
            if t == ALL:
                if pend:
                    bad = f'upstream {a} has pending {sorted(pend)}'
                elif any(k[0] == a and v for k, v in G.inflight.items()):
                    bad = f'upstream {a} is executing'
            else:
                for tt in (t, ALL):
                    if tt in pend:
                        bad = f'upstream {a} has {tt} pending'
                    elif G.inflight[(a, tt)]:
                        bad = f'upstream {a} is executing {tt}'
            if bad:
                self.violate('C01', 'released_before_upstream', 'all_targets' if t == ALL else 'target',
                             f'{alg}[{t}] released while {bad}')
        G.must[alg].discard(t)
        G.opt[alg].discard(t)
        self.released_why[(alg, t)] = G.why.pop((alg, t), None)
        G.inflight[(alg, t)] += 1
        G.converting.add((alg, t))

    def on_release(self, job, runid, target):
        """the farm turns a released unit into a task message (farm._put)"""
        G, ref = self.G, self.ref
        alg, t = job.tag, (target if target else ALL)
        self.op(f'release {alg}[{t}] run={runid}')
        G.released_total += 1
        if alg not in ref.kind:
            return
        if (alg, t) not in G.converting:
            self.violate('C03', 'two_in_flight', 'task_message_without_release',
                         f'a task message for {alg}[{t}] is queued in the farm although the scheduler did not release it (again)')
            G.inflight[(alg, t)] += 1
        G.converting.discard((alg, t))
        # C11 run id
        self.check_runid(alg, t, runid)
        G.queued.append((alg, t, runid))
        G.unit_epoch[(alg, t, runid)] = G.epoch

    def check_runid(self, alg, t, runid):
        G, ref = self.G, self.ref
        want = G.runid_of.get(alg)
        if ref.kind[alg] == 'regress':
            if runid != 0:
                self.violate('C11', 'regress_runid', 'nonzero', f'{alg}[{t}] regression released with run id {runid}')
            return
        if want is None:
            hi = self.max_stored_runid()
            if not (isinstance(runid, int) and runid > hi):
                self.violate('C11', 'fresh_runid_not_larger', 'le_max', f'{alg}[{t}] got run id {runid}, stored max is {hi}')
        elif runid != want:
            self.violate('C11', 'runid_not_of_event', 'differs', f'{alg}[{t}] run id {runid}, triggering event had {want}')

    def max_stored_runid(self):
        import dawgie.db

        ks = dawgie.db._prime_keys()
        return max([int(k.split('.')[0]) for k in ks], default=0)

    def on_register(self, worker, rev):
        pass

    def on_status_reply(self, worker, m):
        """C11: a status poll is answered 'abort' while the pipeline is not active or for a stale revision"""
        import dawgie.pl.message as message

        self.probes['status_poll'] += 1
        if m.type == message.Type.response and not m.success:
            self.probes['status_poll_abort'] += 1

    def on_result_dropped(self, worker, m):
        if m is not None:
            self.op(f'w{worker.idx} told to abort: result of {m.jobid}[{m.target or ALL}] run={m.runid} dropped by the worker')
            self.dead_units.add((m.jobid, m.target or ALL))
            self.probes['result_dropped_by_worker'] += 1

    def on_hand(self, hand, task):
        import dawgie.context as ctx

        G = self.G
        unit = (task.jobid, task.target if task.target else ALL, task.runid)
        if unit not in G.queued:
            self.violate('C03', 'handed_not_released', 'unknown', f'{unit} handed to a worker but not in the released-unhanded set')
            return
        G.queued.remove(unit)
        wk = self.hand_worker.get(id(hand))
        if unit in G.handed:
            self.violate('C03', 'handed_twice', 'dup', f'{unit} handed to a second worker')
        G.handed[unit] = id(hand)
        self.handed_log.add(unit)
        # C11
        if not ctx.fsm.is_pipeline_active():
            self.violate('C11', 'task_while_inactive', ctx.fsm.state, f'task {unit} sent while the pipeline is not active')
        info = self.hands.get(id(hand))
        if info is None or not info['registered']:
            self.violate('C11', 'task_to_unregistered', 'x', f'task {unit} sent to a connection that never registered')
        else:
            if info['rev'] != ctx.git_rev:
                self.violate('C11', 'task_to_stale_worker', 'rev', f'task {unit} sent to worker of revision {info["rev"]}, current {ctx.git_rev}')
            if info['lost']:
                self.violate('C11', 'task_to_disconnected', 'lost', f'task {unit} sent to a disconnected worker')
            if info['tasks']:
                self.violate('C11', 'second_task', 'busy', f'task {unit} sent to a worker that already holds a task')
            info['tasks'] += 1
            info['task_epoch'] = G.epoch
        self.probes['handed'] += 1

    def on_task_received(self, worker, m):
        self.op(f'w{worker.idx} got task {m.jobid}[{m.target or ALL}] run={m.runid}')
        if self.cfg.get('record_on_run') and m.jobid in self.spec.by:
            # what the real worker does first (worker.Context.run -> version.record), here written straight
            # into the pipeline's tables instead of through the DB port
            import dawgie.pl.version as version

            a = self.spec.by[m.jobid]
            try:
                version.record(self.eng.factory(a.pkg, a.kind)(a.pkg), only=a.name)
                self.probes['version_recorded_by_run'] += 1
            except Exception as e:  # noqa  (database closed during an archive/reload)
                self.probes['version_record_skipped'] += 1
        # C11: message content corresponds to exactly one released unit
        unit = (m.jobid, m.target if m.target else ALL, m.runid)
        if unit not in self.handed_log:  # every unit ever handed; a (re)load may have come between send and receipt
            self.violate('C11', 'task_msg_mismatch', 'unit', f'worker received {unit} which is not a handed unit')
        a = self.spec.by.get(m.jobid)
        if a is not None:
            want = (f'{self.spec.base}.{a.pkg}', a.kind)
            if tuple(m.factory) != want:
                self.violate('C11', 'task_msg_mismatch', 'factory', f'{unit} carries factory {m.factory}, want {want}')

    def on_reply_sent(self, worker, m, outcome, values):
        news = [v.split('.', 2)[2] for v, n in (values or []) if n]
        self.op(f'w{worker.idx} replies {m.jobid}[{m.target or ALL}] run={m.runid} '
                f'{ {True: "success", False: "failure", None: "invalid"}[outcome]} new={news}')

    def load_coming(self):
        import dawgie.context as ctx

        return getattr(getattr(ctx, 'fsm', None), 'state', None) in ('updating', 'loading')

    def store_as_worker(self, m, values=None):
        """what the real worker's ds.update() leaves in the pipeline's tables before it replies: one primary row per
        value under the run id of the task (through the database port in reality, written straight here).  Without
        it dawgie.db.next() would hand out the same run id for ever and nothing that depends on run ids differing
        between events would ever be exercised."""
        from dawgie.db.shelve import util
        from dawgie.db.shelve.enums import Table
        from dawgie.db.shelve.state import DBI

        dbi = DBI()
        a = self.spec.by.get(m.jobid)
        if a is None or not dbi.is_open or not self.cfg.get('store_on_reply', True):
            self.probes['store_skipped'] += 1
            return
        alg = self.eng.make_alg(a)

        def app(tab, name, parent=None, ver=None):
            return util.append(name, dbi.tables[tab.value], dbi.indices[tab.value], parent, util.LocalVersion(ver) if ver else None)[1]

        try:
            tid = app(Table.task, a.pkg)
            aid = app(Table.alg, alg.name(), tid, alg._get_ver())
            for tn in sorted({m.target or ALL} | {v.split('.', 2)[1] for v, _n in (values or [])}):
                trg = app(Table.target, tn)
                for sv in alg.state_vectors():
                    sid = app(Table.state, sv.name(), aid, sv._get_ver())
                    for k in sv.keys():
                        vid = app(Table.value, k, sid, sv[k]._get_ver())
                        dbi.tables[Table.prime.value][str((m.runid, trg, tid, aid, sid, vid))] = 'sim-blob'
            self.probes['stored_by_worker'] += 1
        except Exception as e:  # noqa  (database being closed under the writer)
            self.probes['store_failed'] += 1
            self.op(f'worker could not store: {e!r}')

    def decide_outcome(self, m):
        ch, cfg = self.ch, self.cfg
        oc = cfg['outcome']
        bag = [True] * oc['success'] + [False] * oc['failure'] + [None] * oc['invalid']
        outcome = bag[ch.choose('w.outcome', len(bag))]
        values = None
        if outcome is True:
            a = self.spec.by[m.jobid]
            t = m.target if m.target else ALL
            mode = ch.choose('w.newmode', 3)  # 0 all new, 1 random subset, 2 none new
            values = []
            for v in a.values():
                new = mode == 0 or (mode == 1 and ch.flip('w.new', 1, 2))
                if getattr(self, 'tail_no_news', False):
                    new = False  # the event set of the liveness phase is closed (see tail())
                values.append((f'{m.runid}.{t}.{v}', new))
            if t != ALL and cfg.get('retarget', True) and ch.flip('w.retarget', 1, 10):
                # the algorithm also writes to a sub-target (Dataset.retarget): one reply carries values of two targets
                t2 = f'{t}~n1'
                values += [(f'{m.runid}.{t2}.{v.split(".", 2)[2]}', new) for v, new in list(values)]
                self.probes['reply_with_two_targets'] += 1
            if hasattr(self, 'tail_news') and any(n for _v, n in values):
                self.tail_news += 1
        return outcome, values

    def on_reply(self, msg):
        """replaces Hand._res: snapshot, real code, oracles"""
        import dawgie.pl.farm as farm

        G, ref = self.G, self.ref
        alg, t = msg.jobid, (msg.incarnation if msg.incarnation else ALL)
        unit = (alg, t, msg.runid)
        epoch_of_execution = self.stamps.get((msg.timing or {}).get('started'))
        stale = epoch_of_execution is not None and epoch_of_execution != G.epoch
        current = (not stale) and G.unit_epoch.get(unit) == G.epoch and unit in G.handed
        before, qb = self.snap()
        nchron = len(self.chron)
        escaped = None
        self.in_reply, self.reply_fault = True, False
        backlog = [(m.jobid, m.target if m.target else ALL, m.runid) for lst in (farm._cluster, farm._cloud) for m in lst]
        try:
            self.real['_res'](msg)
        except Exception as e:  # noqa  (judged like any other outcome, then handed on to the reactor as the real code would see it)
            escaped = e
            self.probes['exception_escaped_reply_handling'] += 1
            self.op(f'exception escaped the handling of the reply: {e!r}')
        finally:
            self.in_reply = False
        started = (msg.timing or {}).get('started')
        if started not in self.stamps:
            started = None  # not the stamp of a scripted worker (real workers put the clock there: not unique)
        if started is not None and started in self.answered:
            # the same answer a second time: it belongs to no execution in flight and must change nothing
            self.probes['duplicate_reply_judged'] += 1
            after, _qa = self.snap()
            if len(self.chron) != nchron or after != before:
                changed = sorted(k for k in after if after[k] != before.get(k))
                self.violate('C03', 'duplicate_result_applied', 'second_delivery',
                             f'the answer of {alg}[{t}] run={msg.runid} was delivered a second time and was applied again: history entries '
                             f'{self.chron[nchron:]}, scheduler state of {changed} changed (an execution of it now in flight loses its result or runs twice)')
                # the run goes on: what follows from it (a dependent released while the real execution is still with a
                # worker, a result dropped) is what the other properties see of the same defect
            if escaped is not None:
                raise escaped
            return
        if started is not None:
            self.answered.add(started)
        try:
            if msg.success is not True:
                # C05 frame condition, farm side: released units waiting for a worker are executing work too
                left = [(m.jobid, m.target if m.target else ALL, m.runid) for lst in (farm._cluster, farm._cloud) for m in lst]
                gone = [u for u in backlog if u not in left]
                if gone:
                    self.violate('C05', 'released_unit_dropped_by_failure', self.ref.kind.get(gone[0][0], '?'),
                                 f'{alg}[{t}] {"failure" if msg.success is False else "invalid"}: released units {gone} waiting for a worker '
                                 f'disappeared from the farm (they stay marked as executing and never run)')
            self.judge_reply(msg, unit, alg, t, stale, current, before, qb, nchron)
        finally:
            if escaped is not None:
                raise escaped

    def judge_reply(self, msg, unit, alg, t, stale, current, before, qb, nchron):
        G, ref = self.G, self.ref
        after, qa = self.snap()
        status = {True: 'success', False: 'failure', None: 'invalid'}[msg.success]
        G.replies += 1
        self.probes['reply_judged'] += 1
        if stale:
            # result of work released before the last (re)load: the statement promises nothing for it (the pipeline
            # records and propagates it when the job happens to be queued, which G mirrors below), but it must not
            # be taken for the result of a unit released since
            self.probes['reply_from_before_reload'] += 1
            if alg not in qb or len(self.chron) == nchron:
                return  # ignored by the pipeline ('Could not find job', or recognised as not belonging to an execution in flight)
            if G.inflight.get((alg, t)) and t in before[alg][1] and t not in after[alg][1]:
                self.violate('C03', 'stale_result_applied', 'reply_from_before_reload',
                             f'result {status} of {alg}[{t}] run={msg.runid}, executed by a worker that got the task before the last (re)load, '
                             f'was taken for the result of the unit released since (handed: {unit in G.handed}, still queued: {unit in G.queued}): '
                             f'{alg} is no longer executing {t}; the result of the unit released since the reload will be dropped or it is released twice')
                self.stopped = True  # everything after this is poisoned, whatever the property under check
                return
            self.probes['stale_reply_recorded_and_propagated'] += 1
        elif not current:
            self.probes['reply_for_unknown_or_old_unit'] += 1
            return
        else:
            del G.handed[unit]
            G.inflight[(alg, t)] -= 1
            if G.inflight[(alg, t)] <= 0:
                del G.inflight[(alg, t)]
            # C03 (iii) / C18 (a): exactly one chronicle entry
            new = self.chron[nchron:]
            want = (alg, t, msg.runid, status)
            if self.reply_fault:
                # injected disk error while this completion was being journalled: the reply's follow-on (history
                # entry, propagation, withdrawal of dependents) is forfeited - deliberately and only for this reply.
                # What must still hold: the unit is no longer executing anywhere (checked by the invariants after
                # this step: crew view, idle-means-idle, liveness), nothing wrong is recorded, nothing is triggered.
                self.probes['completion_lost_to_journal_fault'] += 1
                if new:
                    self.violate('C18', 'completion_not_recorded_once', f'n={len(new)}:{status}:after_journal_fault',
                                 f'the journal write of {want} failed, yet entries {new} were recorded')
                if t in after.get(alg, ((), (), ()))[1]:
                    for pr in ('C03', 'C04'):
                        self.violate(pr, 'unit_still_executing_after_reply', 'journal_fault',
                                     f'{alg}[{t}] was answered ({status}) and is with no worker, but the scheduler still holds it as executing after the '
                                     f'journal write failed: it can never be released again and the queue never empties')
                for y in after:
                    grew = set(after[y][0]) - set(before[y][0])
                    if grew:
                        self.violate('C02', 'triggered_without_new_input', ref.kind.get(y, '?'),
                                     f'{alg}[{t}] (journal write failed) made {y} pending for {sorted(grew)}')
                return
            if new.count(want) != 1 or len(new) != 1:
                self.violate('C03', 'result_not_recorded_once', f'n={len(new)}',
                             f'reply {want} produced chronicle entries {new}')
                # the same observation decides the first sentence of C18 and, for failures, the last clause of C05
                self.violate('C18', 'completion_not_recorded_once', f'n={len(new)}:{status}',
                             f'completed unit {want}: history entries appended by its completion: {new}')
                if status != 'success':
                    self.violate('C05', 'outcome_not_recorded', status, f'{alg}[{t}] {status}: history entries appended {new}, wanted exactly {want}')
            else:
                self.probes['completion_recorded_once'] += 1
        if msg.success is True:
            newvals = {v.split('.', 2)[2] for v, n in (msg.values or []) if n}
            tgts = {v.split('.', 2)[1] for v, n in (msg.values or []) if n} or {t}  # a reply may carry values of a sub-target too
            owed = collections.defaultdict(set)
            for y in ref.consumers(newvals) - {alg}:
                owed[y] |= G.targets_for(y, tgts)
            for v in newvals:
                if v in ref.feedbacks:
                    y = ref.feedbacks[v]
                    owed[y] |= G.targets_for(y, tgts)
            for y, ts in owed.items():
                G.must[y] |= ts
                for t_ in ts:
                    G.why[(y, t_)] = 'new_value'  # the latest cause wins: it must run again *after this report*
                G.runid_of[y] = None if any(v in ref.feedbacks for v in newvals) else msg.runid
                # C03 (iii) second half: propagation is visible at once
                have = set(after[y][0])  # pending; an execution already in flight started before this report and does not count
                missing = ts - have
                if missing and self.load_coming():
                    # the reload has begun (database closed, schedule about to be rebuilt from scratch by the load):
                    # whatever this reply adds to the pending sets is discarded with them a moment later
                    self.probes['report_in_reload_window_not_judged'] += 1
                    missing = set()
                if missing:
                    for pr in ('C02', 'C03'):  # C02 'run again after that report'; C03 'its new-value report is propagated'
                        self.violate(pr, 'new_value_not_propagated', ref.kind[y],
                                     f'{alg}[{t}] reported {sorted(newvals)} new; {y} declares one as input but '
                                     f'{sorted(missing)} not pending for it after the reply')
            if newvals:
                self.probes['reply_with_new_values'] += 1
            # nothing else may have been triggered (C02 minimality, at the source)
            for y in after:
                grew = (set(after[y][0]) - set(before[y][0]))
                extra = grew - owed.get(y, set())
                if extra:
                    self.violate('C02', 'triggered_without_new_input', ref.kind.get(y, '?'),
                                 f'{alg}[{t}] success made {y} pending for {sorted(extra)} though none of its inputs was reported new')
        else:
            self.probes['reply_' + status] += 1
            if not stale:
                self.check_failure(alg, t, before, after, status)
            for d in ref.desc[alg]:
                G.must[d].discard(t)
                G.opt[d].discard(t)
                if t == ALL and G.must[d]:
                    G.opt[d] |= G.must[d]
                    G.must[d].clear()
            if t in G.must[alg]:
                G.must[alg].discard(t)
                G.opt[alg].add(t)

    def check_failure(self, alg, t, before, after, status):
        ref = self.ref
        desc = ref.desc[alg]
        for y in after:
            tb, db, ob = before[y]
            ta, da, oa = after[y]
            if y in desc:
                if t in ta:
                    self.violate('C05', 'dependent_not_withdrawn', ref.kind[y],
                                 f'{alg}[{t}] {status}; dependent {y} still has {t} pending')
                    self.probes['x'] += 0
                if t in tb:
                    self.probes['failure_withdrew_dependent'] += 1
                others_b = [x for x in tb if x != t]
                others_a = [x for x in ta if x != t]
                if others_b != others_a:
                    self.violate('C05', 'other_target_disturbed', 'dependent_todo',
                                 f'{alg}[{t}] {status}; {y} pending changed {tb} -> {ta}')
                if (db - {t}) != (da - {t}):
                    self.violate('C05', 'other_target_disturbed', 'dependent_doing',
                                 f'{alg}[{t}] {status}; {y} executing changed {sorted(db)} -> {sorted(da)}')
            elif y == alg:
                if (db - {t}) != (da - {t}) or [x for x in tb if x != t] != [x for x in ta if x != t]:
                    self.violate('C05', 'other_target_disturbed', 'own',
                                 f'{alg}[{t}] {status}; its own other work changed {tb},{sorted(db)} -> {ta},{sorted(da)}')
            else:
                if tb != ta or db != da:
                    self.violate('C05', 'unrelated_disturbed', ref.kind[y],
                                 f'{alg}[{t}] {status}; {y} does not depend on it but changed {tb},{sorted(db)} -> {ta},{sorted(da)}')
            if set(ta) - set(tb):
                self.violate('C05', 'failure_triggered_work', ref.kind[y],
                             f'{alg}[{t}] {status}; {y} gained pending {sorted(set(ta) - set(tb))}')

    def fsm_fields(self):
        import dawgie.pl.farm as farm
        import dawgie.pl.schedule as schedule

        f = self.fsm
        nodes = {t: (tuple(n.get('todo')), tuple(sorted(n.get('doing'))), tuple(sorted(n.get('do')))) for t, n in self.nodes().items()}
        return dict(state=f.state, transitioning=f.transitioning.name, prior=f._FSM__prior, priority=f.priority, changeset=f.changeset,
                    waits=(f.wait_on_crew.is_set(), f.wait_on_doing.is_set(), f.wait_on_todo.is_set()),
                    threads=(id(f.crew_thread), id(f.doing_thread), id(f.todo_thread)), archive=farm.ARCHIVE,
                    que=[j.tag for j in schedule.que], nodes=nodes, workers=len(farm._workers), busy=list(farm._busy),
                    cluster=len(farm._cluster), paused=schedule.pipeline_paused)

    # -- per-step invariants ----------------------------------------------
    def after_step(self, kind, label):
        import dawgie.context as ctx
        import dawgie.pl.farm as farm
        import dawgie.pl.schedule as schedule

        G = self.G
        if self.stopped:
            raise Stop()
        if schedule.ae is None or not hasattr(ctx, 'fsm'):
            return
        # conservation: released-unhanded == farm cluster queue
        cl = sorted((m.jobid, m.target if m.target else ALL, m.runid) for m in farm._cluster)
        if cl != sorted(G.queued):
            self.violate('C03', 'queue_conservation', 'cluster', f'farm queue {cl} != released-unhanded {sorted(G.queued)}')
        # C03 (ii'): a unit the scheduler marked as executing is in the farm (being converted, queued, or with a
        # worker) - it is never lost between the scheduler and the farm
        inconv = {j.tag for j in getattr(farm, '_jobs', ())}  # (the list is the farm's; a tree without it keeps nothing there)
        for tag, t in sorted(G.converting):
            if tag not in inconv:
                for pr in ('C03', 'C11'):  # C03 'otherwise stays queued'; C11 'tasks that cannot be placed stay queued'
                    self.violate(pr, 'released_unit_lost', 'not_in_farm',
                                 f'{tag}[{t}] was released by the scheduler but is neither waiting to be dispatched, queued in the farm nor with a worker')
                why = self.released_why.get((tag, t))
                if why in ('new_value', 'version'):
                    # ... and it was owed because an input was reported new (C02) / a version is new (C15): it never runs
                    self.violate('C02' if why == 'new_value' else 'C15', 'rerun_after_new_value_not_released' if why == 'new_value' else 'new_version_never_released',
                                 'lost_between_scheduler_and_farm',
                                 f'{tag}[{t}] had to run ({why}); the scheduler released it but no task message was ever made for it')
        # C03 (iv): crew view of busy == handed and unanswered
        busy = sorted(b.split(' duration')[0] for b in farm.crew()['busy'])
        want = sorted(f'{u[0]}[{u[1]}]' for u in G.handed)
        if busy != want:
            self.violate('C03', 'crew_view', 'busy', f'crew busy {busy} != in flight {want}')
        # C04 (i): idle means idle
        if G.idle() and not G.handed and ctx.fsm.is_pipeline_active():
            if schedule.que:
                self.violate('C04', 'queue_not_empty_when_idle', self.idle_sig(),
                             f'nothing pending or executing, work queue still holds {[j.tag for j in schedule.que]}')
            elif schedule.view_todo() or schedule.view_doing():
                self.violate('C04', 'views_not_empty_when_idle', 'view', f'todo={schedule.view_todo()} doing={schedule.view_doing()}')
        for th in self.sim.threads:
            if th.exc is not None and not getattr(th, 'reported', False):
                th.reported = True
                self.op(f'thread {th.name} died: {th.exc!r}')
                self.probes['thread_exception'] += 1

    def idle_sig(self):
        import dawgie.pl.schedule as schedule

        if self.G.released_total == 0 and self.probes['build'] <= 1:
            return 'after_load_nothing_to_do'
        if self.probes['reply_failure'] or self.probes['reply_invalid']:
            return 'after_failure'
        return 'other'

    # -- workload ------------------------------------------------------------
    rerequested = ()

    def user_event(self):
        import dawgie.db
        import dawgie.fe.api as api

        ch, cfg, G = self.ch, self.cfg, self.G
        mix = cfg['mix']
        bag = [k for k, n in mix.items() for _ in range(n)]
        kind = bag[ch.choose('u.kind', len(bag))]
        if not self.db_open():
            self.probes['user_event_skipped_db_closed'] += 1
            return
        algs = [a.full for a in self.spec.algs]
        known = self.known_targets()
        if kind == 'rerun_executing':
            live = sorted(k for k, v in G.inflight.items() if v)
            if not live:
                kind = 'run'
            else:
                alg, t = live[ch.choose('u.live', len(live))]
                self.rerequested = set(self.rerequested) | {(alg, t)}
                targets = [] if t == ALL else [t]
                self.probes['rerequest_while_doing'] += 1
                self.op(f'user: run {alg} on {targets} (already executing)')
                G.request([alg], set(targets))
                api.cmd_run(runnables=[alg], targets=targets)
                return
        if kind in ('run', 'run_all', 'run_empty'):
            n = 1 + ch.choose('u.nalg', min(3, len(algs)))
            sel = sorted({algs[ch.choose('u.alg', len(algs))] for _ in range(n)})
            if kind == 'run_all':
                targets = [ALL]
            elif kind == 'run_empty' or not known:
                targets = []
            else:
                k = 1 + ch.choose('u.ntargets', min(3, len(known)))
                targets = sorted({known[ch.choose('u.target', len(known))] for _ in range(k)})
            self.op(f'user: run {sel} on {targets}')
            if not targets:
                self.probes['request_with_no_targets'] += 1
            G.request(sel, set(targets))
            api.cmd_run(runnables=sel, targets=targets)
        elif kind == 'update':
            import dawgie.context as ctx

            if self.pending is not None or not ctx.fsm.is_pipeline_active():
                self.probes['update_skipped_not_active'] += 1
                return
            self.pending = aegen.evolve(ch, self.spec, max_total=cfg['max_total'], graph_edits=cfg.get('graph_edits', True))
            if ch.flip('u.newrev', 1, 2):
                self.rev_n += 1
                # release labels either count up or grow (v2.1 -> v2.1.1): the old one is then a prefix of the new
                cur = os.environ['DAWGIE_DOCKERIZED_AE_GIT_REVISION']
                os.environ['DAWGIE_DOCKERIZED_AE_GIT_REVISION'] = (cur + str(self.rev_n % 10)) if ch.flip('u.rev_grows', 1, 2) else f'rev{self.rev_n}'
            self.op(f'user: software update {self.pending.change_log} rev={os.environ["DAWGIE_DOCKERIZED_AE_GIT_REVISION"]}; reset')
            self.probes['software_update'] += 1
            api.cmd_reset(archive=['true' if ch.flip('u.archive', 1, 4) else 'false'])
        elif kind == 'add_target':
            pool = [t for t in TARGET_POOL if t not in known]
            if pool:
                t = pool[ch.choose('u.newtarget', len(pool))]
                self.op(f'user: add target {t}')
                dawgie.db.add(t)
                self.probes['target_added'] += 1

    # -- the run -----------------------------------------------------------
    def run(self):
        import dawgie.context as ctx
        import dawgie.pl.farm as farm

        cfg = self.cfg
        self.hands = {}
        self.hand_worker = {}
        try:
            self.build()
            self.watch_hands()
            self.fsm = pipeenv.boot_pipeline(self.sim, fsm_cls=getattr(self, 'fsm_cls', None))
            self.op('pipeline is running')
            nw = cfg['workers'] if isinstance(cfg['workers'], int) else cfg['workers'][self.ch.choose('gen.workers', len(cfg['workers']))]
            self.workers = [Worker(self, i) for i in range(nw)]
            self.user = User(self)
            self.sim.actors.extend(self.workers)
            self.sim.actors.append(self.user)
            r = self.sim.run(until=lambda: self.user.done, max_steps=cfg['max_steps'])
            if r == 'until':
                self.tail()
            else:
                self.probes['budget_' + r] += 1
        except Stop:
            pass
        finally:
            try:
                self.final_checks()
            finally:
                pipeenv.close_db()
                if getattr(self, 'dir', None):
                    pipeenv.cleanup(self.dir)
        return self.result()

    def watch_hands(self):
        """observe registrations and connection loss on the real Hand objects"""
        import dawgie.pl.farm as farm

        w = self
        real_reg = _orig(farm.Hand, '_reg')
        real_lost = _orig(farm.Hand, 'connectionLost')

        def _reg(hand, msg):
            w.hands[id(hand)] = dict(rev=msg.revision, registered=True, lost=False, tasks=0, hand=hand)
            return real_reg(hand, msg)

        def connectionLost(hand, reason):
            if id(hand) in w.hands:
                w.hands[id(hand)]['lost'] = True
            return real_lost(hand, reason)

        farm.Hand._reg = _reg
        farm.Hand.connectionLost = connectionLost

    def tail(self):
        """faults have stopped; workers answer everything: bounded liveness"""
        import dawgie.pl.schedule as schedule

        G, cfg = self.G, self.cfg
        self.cfg = dict(cfg, faults=False)
        depth = max(self.ref.level.values(), default=0)
        outstanding = sum(len(v) for v in G.must.values()) + sum(G.inflight.values())
        ticks = (outstanding + depth + 2) * 2 + 4
        worst = max(self.delays)
        horizon = self.sim.now + ticks * (5.0 + worst)
        waiters = self.start_waiters() if cfg.get('waiters', True) and self.ch.flip('tail.waiters', 1, 2) else {}
        # "any finite set of events": every report of a new value is an event (it schedules the consumers, and
        # through a feedback reference the producer's own ancestors - a loop that may go round for as long as
        # values keep coming back new).  The first window still lets replies report new values; if the pipeline is
        # not quiet at its end the event set is closed (replies report nothing new from then on) and the bound is
        # taken again from what is outstanding at that moment.  Only the second window gives the verdict.
        self.tail_news = 0
        self.tail_no_news = False
        r = self.sim.run(until=lambda: G.idle() and not G.handed, max_steps=self.sim.steps + cfg['max_steps'] * 3,
                         max_time=horizon)
        if r != 'until' and self.tail_news:
            self.probes['tail_event_set_closed'] += 1
            self.tail_no_news = True
            outstanding = sum(len(v) for v in G.must.values()) + sum(G.inflight.values())
            ticks = (outstanding + depth + 2) * 2 + 4
            horizon = self.sim.now + ticks * (5.0 + worst)
            r = self.sim.run(until=lambda: G.idle() and not G.handed, max_steps=self.sim.steps + cfg['max_steps'] * 3,
                             max_time=horizon)
        self.tail_result = r
        if waiters and r == 'until' and not (self.dead_units or [u for u in G.handed]):
            self.check_waiters(waiters)
        self.stop_waiters(waiters)
        working = {(wk.task.jobid, wk.task.target or ALL) for wk in self.workers if wk.state == 'working' and wk.task}
        lost = [u for u in G.handed if (u[0], u[1]) not in working]
        if self.dead_units or lost:
            # a unit handed to a worker that died or disconnected is never answered: the property
            # speaks of workers that always answer
            self.probes['tail_skipped_dead_worker'] += 1
            return
        if not self.workers:
            self.probes['tail_skipped_no_worker'] += 1  # nobody to answer anything: quiescence is not promised
            return
        if r == 'until':
            self.probes['quiesced'] += 1
            # a few more ticks: nothing may start by itself
            rel = G.released_total
            self.sim.run(max_steps=self.sim.steps + 60, max_time=self.sim.now + 11.0)
            if G.released_total != rel and G.idle():
                pass
        else:
            # out of virtual time or out of steps (a pipeline spinning on something): both are 'no quiescence'
            self.probes['tail_budget_' + str(r)] += 1
            stuck = {a: sorted(t) for a, t in G.must.items() if t}
            for a, ts in stuck.items():
                for t in ts:
                    self.also_owed(a, t, 'never released although the pipeline has nothing else to do')
            self.violate('C04', 'no_quiescence', 'must_outstanding' if stuck else 'inflight',
                         f'after the last event, with workers answering everything, still owed {stuck} '
                         f'in flight {dict(G.inflight)} after {ticks} dispatch periods ({r} budget); que={[j.tag for j in schedule.que]}')

    # -- C04: every waiter on 'queue empty' / 'nothing executing' / 'crew idle' is eventually satisfied ------------
    POLL_SCALE = 10.0  # the waiters poll every 0.2 s; here every 2 s of virtual time (fewer steps, same logic)

    def start_waiters(self):
        """the real polling bodies of the submit waiters, started while work is still outstanding"""
        fsm = self.fsm
        out = {}
        for name, ev, body in (('todo', fsm.wait_on_todo, fsm.is_todo_done), ('doing', fsm.wait_on_doing, fsm.is_doing_done),
                               ('crew', fsm.wait_on_crew, fsm.is_crew_done)):
            ev.clear()  # 'somebody is waiting'
            th = self.sim.spawn(f'waiter:{name}', body)
            th.poll_scale = self.POLL_SCALE
            out[name] = (th, ev)
        self.probes['waiters_started'] += 1
        return out

    def check_waiters(self, waiters):
        import dawgie.pl.schedule as schedule

        sim = self.sim
        sim.run(until=lambda: all(th.done for th, _ev in waiters.values()), max_steps=sim.steps + 400,
                max_time=sim.now + 2 * 0.2 * self.POLL_SCALE + 0.5)
        for name, (th, _ev) in waiters.items():
            if not th.done and self.G.idle() and not self.G.handed and self.fsm.is_pipeline_active():
                self.violate('C04', 'waiter_not_satisfied', name,
                             f'nothing is pending, executing or busy and the pipeline is active, but the waiter on "{name}" is still polling two polls later '
                             f'(work queue {[j.tag for j in schedule.que]}, doing view {schedule.view_doing()})')
            elif th.done:
                self.probes['waiter_satisfied'] += 1
            if th.exc is not None:
                self.violate('C04', 'waiter_not_satisfied', f'{name}:raised', f'the waiter on "{name}" died: {th.exc!r}')

    def stop_waiters(self, waiters):
        for _name, (th, ev) in waiters.items():
            ev.set()
        if waiters:
            self.sim.run(until=lambda: all(th.done for th, _ev in waiters.values()), max_steps=self.sim.steps + 200,
                         max_time=self.sim.now + 3 * 0.2 * self.POLL_SCALE)

    def final_checks(self):
        # C18 (a): the journal on disk holds exactly the appended entries
        try:
            disk = []
            root = os.path.join(self.dir, 'dbs', 'chronicles')
            for dp, _dn, fn in os.walk(root):
                for f in fn:
                    with open(os.path.join(dp, f), 'rt', encoding='utf-8') as fh:
                        for e in json.load(fh):
                            disk.append((e['task'], e['target'], e['runid'], e['status']))
            if sorted(map(str, disk)) != sorted(map(str, self.chron)):
                self.violations.append(dict(property='C18', rule='journal_lost_or_duplicated', signature='multiset',
                                            message=f'appended {len(self.chron)} entries, journal holds {len(disk)}',
                                            step=self.sim.steps, t=self.sim.now))
        except Exception as e:  # noqa
            self.probes['final_check_error'] += 1
            self.op(f'final check error {e!r}')

    def result(self):
        sim, G = self.sim, self.G
        nontrivial = G.released_total >= 2 and G.replies >= 1 and (sim.counts['sched.reordered'] > 0)
        if sim.unhandled:
            self.probes['reactor_unhandled_error'] += len(sim.unhandled)
            for u in sim.unhandled[:4]:
                self.op(f'unhandled exception in a reactor callback: {u}')
        return dict(unhandled=[list(u) for u in sim.unhandled[:6]], violations=self.violations, probes=dict(self.probes), faults={k: v for k, v in sim.counts.items() if k.startswith(('fault.', 'net.'))},
                    steps=sim.steps, vtime=round(sim.now, 3), digest=sim.digest(), nontrivial=bool(nontrivial),
                    kinds=dict(sim.kinds), released=G.released_total, replies=G.replies,
                    sample=self.ops[:60], ops=self.ops)


_ORIG = {}


def _orig(owner, name):
    """the tree's own function, however often a world wrapped it"""
    key = (id(owner), name)
    if key not in _ORIG:
        v = owner.__dict__[name] if isinstance(owner, type) else getattr(owner, name)
        if isinstance(v, staticmethod):
            v = v.__func__
        _ORIG[key] = v
    return _ORIG[key]


def quiet_db_listener(sim):
    pass


def warmup():
    """executed once in the run server before forking"""
    boot.setup()
    import dawgie.pl.state as state

    state.FSM()  # parses state.dot into the cache
    return True


def run(ch, cfg):
    return PipeWorld(ch, cfg).run()
