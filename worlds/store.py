"""W-STORE: the persistence layer (DESIGN.md section 4) under simulation.

Real: dawgie.db (dispatch), dawgie.db.shelve.* through BOTH access paths -- pipeline-local
functions called from the reactor/main thread, and the client path (Interface / Connector /
comms.acquire+release) from 1-4 controlled threads over SimSocket to the real comms.Worker
protocol listening on the simulated reactor --, dawgie.db.util (encode / move / decode),
dawgie.db.basis + shelve.search, dawgie.fe.api.database.search / fe.api.facet.*,
dawgie.db.tools.worm.consume, dawgie.db.tools.purge (its __main__ body via runpy),
dawgie.pl.version.record, dbm.dumb, the file system under /dev/shm.

Reference model: worlds/store_model.py.  One history = phases; in a phase 1-4 client threads run
client operations (update / load / load of a parent / add / record / targets) while the
"pipeline" actor issues pipeline-local operations between any two steps; between phases the
operations that need a quiet database run (remove, worm.consume, reset, version bumps, clean
close+reopen, dirty crash+reopen, purge).  Crash enumeration (C07): worlds/store_crash.py.
"""

import collections
import copy
import os

from sim import boot, core
from worlds import aegen
from worlds import store_env as env
from worlds import store_model as sm

ALL = '__all__'
TARGET_POOL = ['T', 'Tx', 'T_', 'U', 'u', 'T2']
RUN_POOL = [0, 1, 2, 3, 7, 10, 11, 12]
VER_POOL = [(1, 0, 0), (1, 1, 0), (1, 2, 0), (1, 10, 0), (2, 0, 0), (2, 0, 1)]
CONTENT_POOL = [{'k': [1, 2, 3]}, 'text', 0, [1.5, ('t', b'bytes')], {'a': {'b': None}, 'c': [True]}, None]
BIG_PREFIX = bytes(range(256)) * 4800  # 1 228 800 bytes: more than 1 MiB before the two large values start to differ
NAME_POOL = {'targets': TARGET_POOL + ['zz'], 'tasks': aegen.PKG_NAMES[:5] + ['zz'], 'algs': aegen.ALG_NAMES[:5] + ['zz'],
             'svs': aegen.SV_NAMES + ['zz']}


class Stop(Exception):
    pass


def collides(name, other):
    """`other` is a different name that a prefix test on catalogue keys confuses with `name`: keys look like
    '<parent>:parent___<name>___version:<v>', so 'AB' collides with 'A', and 'x' collides with 'x_' (through
    the separator)"""
    return other != name and (other + '___version:').startswith(name)


# --------------------------------------------------------------------------
# bots: user code of the generated engine; new_values() is the novelty signal the bot receives
# --------------------------------------------------------------------------


class _BotMixin:
    def _hook_init(self, world):
        self._w = world
        self._intents = []
        self._nack = 0

    def new_values(self, value=None):
        if value and self._w is not None:
            self._w.on_ack(self, value)
        return super().new_values(value)


class StoreTask(_BotMixin, aegen.GenTask):
    def __init__(self, world, eng, pkg, runid, target):
        aegen.GenTask.__init__(self, eng, pkg, pkg, 0, runid, target)
        self._hook_init(world)


class StoreAnalysis(_BotMixin, aegen.GenAnalysis):
    def __init__(self, world, eng, pkg, runid):
        aegen.GenAnalysis.__init__(self, eng, pkg, pkg, 0, runid)
        self._hook_init(world)


class Client:
    def __init__(self, world, idx, name, ops):
        self.w, self.idx, self.name, self.ops = world, idx, name, ops
        self.cur = None
        self.thread = None
        self.socks = []
        self.snap = None
        self.want_snap = None
        self.snap_pre = None
        self.window_alts = {}
        self.in_window = False
        self.killed = False
        self.done_ops = 0

    @property
    def alive(self):
        return self.thread is not None and not (self.thread.done or self.thread.dead)


DEFAULT_CFG = dict(
    prop='C06', phases=3, max_clients=3, ops_per_client=2, between=2, actor_ops=3, faults=False, net=False,
    content='mixed', max_steps=40000, max_pkgs=2, max_total=4, ntargets=3,
    mix_client=dict(update=6, load=4, load_ref=2, cadd=1, crecord=1, ctargets=1),
    mix_between=dict(remove=2, consume=1, reset=1, bump=3, reopen=1, purge=0, crash=0, trace=1, search=1, check=1, pad=1),
    mix_actor=dict(add=1, record=1, next=1, versions=1, trace=1, search=1, facet=1, fesearch=1, check=2),
    kill=(0, 1), reset_conn=(0, 1), crash_mid=(0, 1), real_hash=(1, 50), stop_on=None, nonfatal=(),
    enum=0, exdev=False, enospc=(0, 1), msv=(1, 6), max_images=160, mix_enum=dict(update=1), enum_clients=2, enum_ops=2, real_kill=(0, 1), calibrate=0, big=(1, 10),
)


class StoreWorld:
    def __init__(self, ch, cfg):
        self.ch = ch
        self.cfg = dict(DEFAULT_CFG)
        self.cfg.update(cfg or {})
        self.sim = boot.setup()
        self.violations = []
        self.vcount = collections.Counter()
        self.probes = collections.Counter()
        self.faults = collections.Counter()
        self.ops = []
        self.stopped = False
        self.stop_on = set(self.cfg['stop_on'] or [self.cfg['prop']])
        self.model = sm.Model()
        self.clients = []
        self.nuniq = 0
        self.seen_ids = {t: {} for t in ('target', 'task', 'alg', 'state', 'value')}
        self.db_open = False
        self.dir = None
        self.loads_checked = 0
        self.searches_checked = 0
        self.crash_points = 0
        self.nunhandled = 0
        self.phase_no = 0
        self.imager = None
        self.wind_up = False
        self.exclusion_suspect = False
        self.big_left = 0
        self.big_keys = []
        self.big_loaded = False

    # -- reporting ---------------------------------------------------------
    def violate(self, prop, rule, sig, msg, fatal=True):
        if self.stopped:
            return
        key = (prop, rule, sig)
        self.vcount[key] += 1
        if self.vcount[key] > 1:
            return
        self.violations.append(dict(property=prop, rule=rule, signature=sig, message=msg, step=self.sim.steps,
                                    t=round(self.sim.now, 3)))
        self.op(f'VIOLATION {prop}/{rule} {sig}: {msg}')
        if fatal and prop in self.stop_on and rule not in self.cfg['nonfatal']:
            self.stopped = True
        elif prop == self.cfg['prop']:
            # a violation after which the model was re-synchronised: the history goes on to the end of the
            # current phase (other clauses stay checkable) and ends there (short replays)
            self.wind_up = True

    def op(self, text):
        if len(self.ops) < 400:
            self.ops.append(f'[{self.sim.steps}@{self.sim.now:.2f}] {text}')

    def check_stop(self):
        """called between operations / phases of the history (never while a client is in the middle of something)"""
        if (self.stopped or self.wind_up) and core.current_thread() is None and not any(c.alive for c in self.clients):
            raise Stop()
        if self.stopped and core.current_thread() is None:
            raise Stop()

    # -- universe ------------------------------------------------------------
    def build(self):
        import dawgie.db

        ch, cfg = self.ch, self.cfg
        net = core.NetCfg(chunk=(1, 10), delay=(1, 8), coalesce=(1, 4), short_read=(1, 10)) if cfg['net'] else core.NetCfg()
        from worlds import store_io as sio

        sio.uninstall()
        sio.S.reset()
        env.reset(self.sim, ch, net=net)
        self._patch_observers()
        self.restore_io()
        self.spec = aegen.generate(ch, max_pkgs=cfg['max_pkgs'], max_algs=3, max_total=cfg['max_total'], feedback=False,
                                   kinds=['task', 'task', 'task', 'analysis'], max_svs=2, max_vals=2, max_inputs=2)
        self.eng = aegen.Engine(self.spec)
        self.eng.install()
        self.dir = env.rundir()
        env.configure(self.dir)
        if ch.flip('cfg.real_hash', *cfg['real_hash']):
            env.HASH['real'] = True
            self.probes['real_md5sum_sha1sum_run'] += 1
        if not (cfg['enum'] or cfg['calibrate']) and ch.flip('cfg.big', *cfg['big']):
            self.big_left = 2
            self.probes['run_with_large_value_pair'] += 1
        self.tpool = TARGET_POOL[:max(2, cfg['ntargets'] + 1)]
        self.op(f'engine: {self.spec.brief()}')
        dawgie.db.open()
        self.db_open = True
        nt = 1 + ch.choose('gen.ntargets', cfg['ntargets'])
        pool = list(self.tpool)
        for _ in range(min(nt, len(pool))):
            t = pool.pop(ch.choose('gen.target', len(pool)))
            dawgie.db.add(t)
            self.op(f'pl: add target {t}')
        if cfg.get('mix_between', {}).get('pad') and ch.flip('gen.pad_first', 1, 2):
            # another engine was there first: this engine's first task and algorithm get id 1, not 0
            from dawgie.db.shelve import util
            from dawgie.db.shelve.state import DBI

            dbi = DBI()
            util.append('zzpadtask', dbi.tables.task, dbi.indices.task)
            util.append('zzpad0', dbi.tables.alg, dbi.indices.alg, 0, util.LocalVersion('1.0.0'))
            self.probes['catalogue_padded_at_start'] += 1
        self.sim.after_step.append(self.after_step)

    def restore_io(self):
        """the I/O seam of the main history: nothing, or (disk-fault configurations) the numbered wrappers inside
        dawgie.db.util only"""
        from worlds import store_io as sio

        cfg = self.cfg
        sio.uninstall()
        sio.S.reset()
        if cfg['exdev'] or cfg['enospc'][0]:
            sio.install('util')
            sio.S.exdev = bool(cfg['exdev'])
            sio.S.active = True
            if cfg['enospc'][0]:
                sio.S.fail = self.disk_full

    def _patch_observers(self):
        """harness observation points (no behaviour change): comms.release is wrapped so that a load's
        expected outcome is taken from the model while the client still holds the database lock;
        security.connect remembers which client thread owns which socket (to reset them when the
        client process is killed)."""
        import dawgie.db.shelve.comms as comms
        import dawgie.security as sec

        w = self
        if not hasattr(StoreWorld, '_real_release'):
            StoreWorld._real_release = comms.release
        real_release = StoreWorld._real_release

        def release(s):
            cl = w.client_of_thread()
            if cl is not None and cl.want_snap is not None:
                cl.snap = cl.want_snap()
                cl.want_snap = None
                cl.in_window = False
            return real_release(s)

        comms.release = release
        if not hasattr(StoreWorld, '_real_acquire'):
            StoreWorld._real_acquire = comms.acquire
        real_acquire = StoreWorld._real_acquire

        def acquire(name):
            s = real_acquire(name)
            cl = w.client_of_thread()
            if cl is not None and cl.want_snap is not None:
                # the load has the lock now: what the model says at this instant is as legitimate as what it says
                # at release time -- they only differ when a fault broke the mutual exclusion (the lock connection
                # of another client was reset while that client kept writing)
                cl.snap_pre = cl.want_snap()
                cl.window_alts = {}
                cl.in_window = True
            return s

        comms.acquire = acquire
        sim = self.sim

        def connect(address):
            s = core.SimSocket(sim, address)
            cl = w.client_of_thread()
            if cl is not None:
                cl.socks.append(s)
                if len(cl.socks) > 8:
                    cl.socks[:] = [x for x in cl.socks if not x.conn.client_gone]
            return s

        sec.connect = connect

    def client_of_thread(self):
        th = core.current_thread()
        if th is None:
            return None
        for cl in self.clients:
            if cl.thread is th:
                return cl
        return None

    # -- generated objects ---------------------------------------------------
    def make(self, aspec, runid, target):
        """fresh bot + algorithm instance with the versions the software has now"""
        if aspec.kind == 'analysis':
            bot = StoreAnalysis(self, self.eng, aspec.pkg, runid)
            target = ALL
        else:
            bot = StoreTask(self, self.eng, aspec.pkg, runid, target)
        alg = [a for a in bot.list() if a.name() == aspec.name][0]
        return bot, alg, target

    @staticmethod
    def ident(aspec, alg, sv, vn):
        return (aspec.pkg, alg.name(), tuple(alg._get_ver()), sv.name(), tuple(sv._get_ver()), vn, tuple(sv[vn]._get_ver()))

    def connect(self, aspec, alg, bot, target):
        import dawgie.db

        if aspec.kind == 'analysis':
            return dawgie.db.gather(alg, bot)
        return dawgie.db.connect(alg, bot, target)

    def draw_content(self):
        ch, mode = self.ch, self.cfg['content']
        if mode == 'pool' or (mode == 'mixed' and ch.flip('op.content_pool', 1, 2)):
            i = ch.choose('op.content', len(CONTENT_POOL))
            return copy.deepcopy(CONTENT_POOL[i]), f'P{i}'
        self.nuniq += 1
        return {'u': self.nuniq, 'data': [self.nuniq % 7, 'x' * (self.nuniq % 5)]}, f'U{self.nuniq}'

    def draw_alg(self, kind='op.alg'):
        return self.spec.algs[self.ch.choose(kind, len(self.spec.algs))]

    def draw_target(self):
        return self.tpool[self.ch.choose('op.target', len(self.tpool))]

    def draw_run(self):
        return RUN_POOL[self.ch.choose('op.run', len(RUN_POOL))]

    # -- client operations ---------------------------------------------------
    def gen_client_op(self, force=None, mix=None):
        ch, cfg = self.ch, self.cfg
        bag = [k for k, n in (mix or cfg['mix_client']).items() for _ in range(n)]
        kind = force or bag[ch.choose('op.ckind', len(bag))]
        op = dict(kind=kind)
        if kind in ('update', 'load', 'load_ref', 'crecord'):
            a = self.draw_alg()
            if kind == 'load_ref' and not a.inputs:
                cands = [x for x in self.spec.algs if x.inputs]
                if cands:
                    a = cands[ch.choose('op.refalg', len(cands))]
                else:
                    kind = op['kind'] = 'load'
            op['alg'] = a.full
            op['target'] = ALL if a.kind == 'analysis' else self.draw_target()
            op['run'] = self.draw_run()
            if kind in ('load', 'load_ref') and self.model.prime and ch.flip('op.load_known', 2, 3):
                # aim at something that was stored: same identity and target, the same or another run
                keys = sorted(self.model.prime, key=repr)
                k = keys[ch.choose('op.load_key', len(keys))]
                full = f'{k[2]}.{k[3]}'
                if kind == 'load_ref':
                    kids = [x for x in self.spec.algs if any(i[0] == full for i in x.inputs)]
                    if kids:
                        kid = kids[ch.choose('op.load_kid', len(kids))]
                        op['alg'] = kid.full
                        op['target'] = ALL if kid.kind == 'analysis' else (k[1] if k[1] != ALL else self.draw_target())
                else:
                    op['alg'], op['target'] = full, k[1]
                if ch.flip('op.load_same_run', 1, 2):
                    op['run'] = k[0]
            if kind == 'update' and self.model.prime and ch.flip('op.update_known', 1, 3):
                # store again where something is stored already: the primary entry is overwritten in place
                keys = sorted((k for k in self.model.prime if k[5] != '__metric__'), key=repr)
                if keys:
                    k = keys[ch.choose('op.update_key', len(keys))]
                    if f'{k[2]}.{k[3]}' in self.spec.by:
                        a = self.spec.by[f'{k[2]}.{k[3]}']
                        sibs = [x for x in self.spec.algs if x.pkg == a.pkg and x.name != a.name and x.kind == a.kind]
                        if sibs and ch.flip('op.update_sibling', 1, 2):
                            # ... or next to it: another algorithm of the same task on the same target and run
                            # (name-addressed operations must then tell the siblings apart)
                            a = sibs[ch.choose('op.update_sib', len(sibs))]
                        op['alg'], op['target'], op['run'] = a.full, k[1], k[0]
            if kind == 'update':
                op['contents'] = {}
                op['labels'] = {}
                for s, _sv, vals in a.svs:
                    for v, _vv in vals:
                        c, lab = self.draw_content()
                        op['contents'][(s, v)] = c
                        op['labels'][f'{s}.{v}'] = lab
                op['msv'] = ch.flip('op.msv', *cfg['msv'])
                if self.big_left > 0 and self.imager is None:
                    # one run in ten stores a pair of LARGE values (> 1 MiB serialised) that agree on their first
                    # 1.2 MB and differ only at the very end, under different identities / targets / runs, and
                    # loads both later: content addressing must hash all of the bytes
                    here = (op['alg'], op['target'], op['run'])
                    if here in [k[:3] for k in self.big_keys]:
                        op['run'] = [r for r in RUN_POOL if (op['alg'], op['target'], r) not in [k[:3] for k in self.big_keys]][0]
                    s0, _v0, vals0 = a.svs[0]
                    tail = b'first' if self.big_left == 2 else b'other'
                    op['contents'][(s0, vals0[0][0])] = BIG_PREFIX + tail
                    op['labels'][f'{s0}.{vals0[0][0]}'] = f'BIG-{tail.decode()}'
                    op['msv'] = False
                    self.big_left -= 1
                    self.big_keys.append((op['alg'], op['target'], op['run'], self.phase_no))
                    self.probes['large_value_stored'] += 1
        elif kind == 'cadd':
            op['target'] = self.draw_target()
        return op

    def describe(self, op):
        k = op['kind']
        if k == 'update':
            return f"update {self.alg_brief(op['alg'])} on {op['target']} run={op['run']} {op['labels']}" + (' +metrics' if op.get('msv') else '')
        if k in ('load', 'load_ref', 'crecord'):
            return f"{k} {self.alg_brief(op['alg'])} on {op['target']} run={op['run']}"
        if k == 'cadd':
            return f"add target {op['target']} (client path)"
        return k

    def alg_brief(self, full):
        a = self.spec.by[full]
        svs = ','.join(f'{s}@{sm.vstr(sv)}[' + ','.join(f'{v}@{sm.vstr(vv)}' for v, vv in vals) + ']' for s, sv, vals in a.svs)
        return f'{full}@{sm.vstr(a.ver)}({svs})'

    def client_main(self, cl):
        # a worker is a process of its own: what dawgie.db.reopen()/close() do to *module* state happens over there, not
        # in the pipeline's copy of the module.  Here both live in one interpreter, so the worker side goes straight to
        # the (thread-aware) DBI calls those two functions consist of
        from dawgie.db.shelve.state import DBI

        DBI().reopen()
        for op in cl.ops:
            cl.cur = op
            self.op(f'{cl.name}: {self.describe(op)}')
            try:
                getattr(self, 'c_' + op['kind'])(cl, op)
            except (core.ThreadKilled, core.HarnessError):
                raise
            except Exception as e:  # noqa  reported by the main thread
                op['exc'] = e
                self.on_client_exception(cl, op, e)
            cl.done_ops += 1
            cl.cur = None
            if self.stopped:
                break
        DBI().close()

    def on_client_exception(self, cl, op, e):
        import traceback

        here = os.path.dirname(os.path.abspath(__file__))
        tb = traceback.extract_tb(e.__traceback__)
        if tb and tb[-1].filename.startswith(here):
            raise e  # a bug of the harness: never a violation
        self.op(f'{cl.name}: {op["kind"]} raised {type(e).__name__}: {e}')
        self.probes['client_op_raised'] += 1
        self.settle_inflight(cl)
        if not self.faulty_history():
            self.violate(self.cfg['prop'], 'operation_raised', f'{op["kind"]}:{type(e).__name__}',
                         f'{self.describe(op)} raised {e!r} in a history without faults')

    def faulty_history(self):
        return sum(self.faults.values()) > 0

    def prepare_update(self, op):
        aspec = self.spec.by[op['alg']]
        bot, alg, target = self.make(aspec, op['run'], op['target'])
        intents = []
        for sv in alg.state_vectors():
            for vn in sv.keys():
                c = op['contents'][(sv.name(), vn)]
                sv[vn].content = copy.deepcopy(c)
                intents.append(sm.Intent(op['run'], target, self.ident(aspec, alg, sv, vn), c, sm.digest_of(sv[vn])))
        return aspec, bot, alg, target, intents

    def intents_of(self, op):
        return self.prepare_update(op)[4]

    def c_update(self, cl, op):
        aspec, bot, alg, target, intents = self.prepare_update(op)
        bot._intents, bot._nack = intents, 0
        op['bot'] = bot
        ds = self.connect(aspec, alg, bot, target)
        ds.update()
        if bot._nack != len(intents):
            self.violate('C07', 'novelty_not_reported', f'{bot._nack}/{len(intents)}',
                         f'update of {len(intents)} values returned, the bot was told about {bot._nack}')
        got = [n for n, _new in bot.new_values()]
        want = ['.'.join(str(x) for x in i.names) for i in intents]
        if got != want:
            self.violate('C07', 'novelty_names', 'differ', f'bot was told {got}, stored {want}')
        if op.get('msv'):
            self.c_update_msv(cl, op, aspec, alg, bot, target, ds)
        op['bot'] = None
        self.probes['update_done'] += 1

    def c_update_msv(self, cl, op, aspec, alg, bot, target, ds):
        """the process-metrics state vector the real Task.do() stores after every step (deterministic numbers)"""
        import dawgie
        import dawgie.util

        n = op['run'] + 1
        msv = dawgie.util.MetricStateVector(dawgie.METRIC(n, n + 1, n + 2, n + 3, 0.5 * n, 0.25 * n, n + 4),
                                            dawgie.METRIC(1, 2, 3, 4, 5.0, 6.0, 7))
        intents = []
        for vn in msv.keys():
            ident = (aspec.pkg, alg.name(), tuple(alg._get_ver()), msv.name(), tuple(msv._get_ver()), vn, tuple(msv[vn]._get_ver()))
            intents.append(sm.Intent(op['run'], target, ident, msv[vn].value(), sm.digest_of(msv[vn])))
        bot._intents, bot._nack = intents, 0
        op['bot'] = bot
        ds._update_msv(msv)
        self.probes['metrics_stored'] += 1

    def on_ack(self, bot, value):
        """the bot is told (full name, isnew) right after the set was acknowledged, while its client still
        holds the database lock: the model is updated here"""
        name, isnew = value
        if bot._nack >= len(bot._intents):
            self.violate('C07', 'novelty_not_reported', 'extra', f'bot told about {name} which it did not store')
            return
        it = bot._intents[bot._nack]
        bot._nack += 1
        want = '.'.join(str(x) for x in it.names)
        if name != want:
            self.violate('C07', 'novelty_names', 'differ', f'bot was told {name}, stored {want}')
        self.judge_novelty(it, isnew)
        me = self.client_of_thread()
        for other in self.clients:
            if other is not me and other.in_window:
                # possible only after a fault broke the lock: this value appears in the middle of another client's load
                other.window_alts.setdefault((it.target, it.ident), []).append((copy.deepcopy(it.content), it.digest))
                self.probes['update_inside_load_of_another_client'] += 1
        if it.key in self.model.prime:
            # the primary entry is overwritten in place (dbm.dumb rewrites the value without touching its directory)
            self.probes['overwrite_existing_entry'] += 1
            if self.imager is not None:
                self.probes['overwrite_existing_entry_under_crash_enumeration'] += 1
        if self.exclusion_suspect and sum(1 for c in self.clients if c.alive and c.cur and c.cur['kind'] == 'update') > 1:
            self.model.ack_overlapping(it)  # two updates side by side after a lock fault: see store_model
        else:
            self.model.ack(it)
        self.acks_log(it, isnew)
        self.op(f'   ack {it.brief()} new={bool(isnew)}')

    def judge_novelty(self, it, isnew):
        """C07 clause 1: a value is reported new exactly when no identical content was in the store before.
        Leniency: when an earlier un-acknowledged update may or may not have left this very content in the
        store, either answer is accepted."""
        m = self.model
        if it.digest in m.maybe_blobs:
            self.probes['novelty_undetermined_after_fault'] += 1
            return
        if self.exclusion_suspect and sum(1 for c in self.clients if c.alive and c.cur and c.cur['kind'] == 'update') > 1:
            # Leniency: a reset lock connection let two updates run side by side; the order in which the pipeline
            # recorded their values is not the order in which the clients learn about it
            self.probes['novelty_undetermined_exclusion_broken'] += 1
            return
        expect = it.digest not in m.blobs
        if bool(isnew) != expect:
            self.violate('C07', 'novelty_wrong', 'reported_new_but_present' if isnew else 'reported_old_but_absent',
                         f'{it.brief()} content digest {it.digest[:12]} was {"absent from" if expect else "present in"} '
                         f'the store, bot was told new={isnew}')
        self.probes['novelty_new' if expect else 'novelty_repeat'] += 1

    def acks_log(self, it, isnew):
        pass

    def settle_inflight(self, cl):
        """a client stopped in the middle of an update: the value it was storing may or may not be recorded"""
        op = cl.cur
        if not op:
            return
        bot = op.get('bot')
        if bot is not None and bot._nack < len(bot._intents):
            it = bot._intents[bot._nack]
            self.model.maybe(it)
            self.op(f'   {cl.name} stopped mid-update: {it.brief()} may or may not be recorded')
            self.probes['update_cut_short'] += 1
        op['bot'] = None
        cl.want_snap = None
        cl.in_window = False

    # loads ------------------------------------------------------------------
    @staticmethod
    def idents_of(aspec, alg):
        """identities (with versions) of every value of the algorithm as the software defines them NOW; taken
        before the load, because the load replaces the value objects"""
        return {(sv.name(), vn): StoreWorld.ident(aspec, alg, sv, vn) for sv in alg.state_vectors() for vn in sv.keys()}

    def expectation(self, idents, target, runid):
        """evaluated while the loading client holds the lock"""
        m = self.model
        return {k: m.load_outcomes(target, ident, runid) for k, ident in idents.items()}

    def c_load(self, cl, op):
        aspec = self.spec.by[op['alg']]
        bot, alg, target = self.make(aspec, op['run'], op['target'])
        pristine = {(sv.name(), vn): sv[vn] for sv in alg.state_vectors() for vn in sv.keys()}
        idents = self.idents_of(aspec, alg)
        cl.snap = None
        cl.want_snap = lambda: self.expectation(idents, target, op['run'])
        ds = self.connect(aspec, alg, bot, target)
        ds.load()
        self.check_load(op, alg, target, pristine, idents, cl.snap, 'own')

    def c_load_ref(self, cl, op):
        aspec = self.spec.by[op['alg']]
        bot, alg, target = self.make(aspec, op['run'], op['target'])
        ds = self.connect(aspec, alg, bot, target)
        refs = alg.traits() if aspec.kind == 'analysis' else alg.previous()
        aimed = self.ch.flip('op.store_between_loads', 1, 2)
        loaded_before = False
        if aimed and self.ch.flip('op.own_load_first', 1, 2):
            # Task.do-like use of one dataset: its own values first, then every parent by reference
            pristine = {(sv.name(), vn): sv[vn] for sv in alg.state_vectors() for vn in sv.keys()}
            idents = self.idents_of(aspec, alg)
            cl.snap = None
            cl.want_snap = lambda i=idents: self.expectation(i, target, op['run'])
            ds.load()
            self.check_load(op, alg, target, pristine, idents, cl.snap, 'own')
            loaded_before = True
        for ref in refs:
            parent = ref.impl
            pspec = parent.a
            ptarget = ALL if pspec.kind == 'analysis' else target
            if aimed and loaded_before and core.current_thread() is not None:
                # between two loads of this dataset another worker stores a NEW entry of the parent that is loaded next
                # (the requested run, or a higher one): for the coming load that store is "earlier"
                up = self.gen_client_op(force='update')
                up['alg'], up['target'], up['msv'] = pspec.full, ptarget, False
                up['run'] = op['run'] if self.ch.flip('op.aimed_same_run', 1, 2) else max(RUN_POOL) + 1 + self.ch.choose('op.aimed_run', 3)
                up['contents'], up['labels'] = {}, {}
                for s_, _sv, vals in pspec.svs:
                    for v_, _vv in vals:
                        c, lab = self.draw_content()
                        up['contents'][(s_, v_)] = c
                        up['labels'][f'{s_}.{v_}'] = lab
                helper = Client(self, len(self.clients), f'{cl.name}.w', [up])
                self.clients.append(helper)
                helper.thread = self.sim.spawn(helper.name, lambda h=helper: self.client_main(h))
                core.current_thread().park(pred=lambda h=helper: not h.alive, label='client.between_loads.foreign_store')
                self.probes['foreign_store_between_two_loads'] += 1
            loaded_before = True
            pristine = {(sv.name(), vn): sv[vn] for sv in parent.state_vectors() for vn in sv.keys()}
            if any(type(v) is not aegen.GenValue or '_version_seal_' in v.__dict__ for v in pristine.values()):
                continue  # the same parent was already loaded through another reference of this algorithm
            idents = self.idents_of(pspec, parent)
            cl.snap = None
            cl.want_snap = lambda i=idents, t=ptarget: self.expectation(i, t, op['run'])
            ds.load(ref)
            self.check_load(op, parent, ptarget, pristine, idents, cl.snap, 'parent')
            self.probes['load_of_parent'] += 1

    def check_load(self, op, alg, target, pristine, idents, snap, how):
        """C06: every value of every state vector equals the model entry of exactly this identity and target
        (requested run, else highest run); untouched (the very same object) when the model has none.
        Leniencies: (1) entries whose set was never acknowledged (client died mid-update) may show either
        state; (2) the loaded object is compared by type, content tree (strict: types of leaves count) and
        version seal -- its `_version_` attribute is whatever the Value class restores on unpickling and is
        not asserted; (3) the expectation is taken from the model both when the load got the lock and when it
        released it, plus every value another client had acknowledged in between: these only differ when a
        fault (reset of a lock connection whose client keeps writing) broke the mutual exclusion -- such a load
        is not "later" than the update, and any of the states it overlapped is accepted."""
        if snap is None:
            raise core.HarnessError('load returned without releasing the lock (no expectation snapshot)')
        cl = self.client_of_thread()
        pre = (cl.snap_pre if cl is not None else None) or {}
        alts = (cl.window_alts if cl is not None else None) or {}
        for sv in alg.state_vectors():
            for vn in sv.keys():
                key = (sv.name(), vn)
                got, ident = sv[vn], idents[key]
                outcomes = list(snap[key])
                extra = [o for o in pre.get(key, []) + alts.get((target, ident), [])
                         if not any(o is x or (o is not sm.UNTOUCHED and x is not sm.UNTOUCHED and o[1] == x[1]) for x in outcomes)]
                if extra:
                    outcomes += extra
                    self.probes['load_overlapped_by_update_after_lock_fault'] += 1
                if got is pristine[key]:
                    ok = any(o is sm.UNTOUCHED for o in outcomes)
                    desc = 'left untouched'
                else:
                    seal = getattr(got, '_version_seal_', None)
                    content = getattr(got, 'content', '<no content attribute>')
                    desc = f'content={sm.brief(content)} seal={None if seal is None else sm.vstr(seal)}'
                    ok = any(o is not sm.UNTOUCHED and type(got) is aegen.GenValue and seal is not None
                             and tuple(seal) == ident[6] and sm.canon(content) == sm.canon(o[0]) for o in outcomes)
                self.probes['load_nothing_matches' if outcomes == [sm.UNTOUCHED] else 'load_found_entry'] += 1
                if len(outcomes) > 1:
                    self.probes['load_with_uncertain_entry'] += 1
                if not ok:
                    want = ['untouched' if o is sm.UNTOUCHED else f'content={sm.brief(o[0])}' for o in outcomes]
                    sig = self.classify_load(ident, target, op['run'], got, pristine[key])
                    self.violate('C06', 'load_mismatch', sig,
                                 f'{how} load of {ident[0]}.{ident[1]}@{sm.vstr(ident[2])}.{ident[3]}@{sm.vstr(ident[4])}.'
                                 f'{ident[5]}@{sm.vstr(ident[6])} on {target} run={op["run"]}: got {desc}, model says {want}')
        if cl is not None:
            cl.snap_pre, cl.window_alts = None, {}
        self.loads_checked += 1
        # the algorithm works on what it loaded, in place: that is its own copy and nobody else's business
        if self.ch.flip('op.scribble', 1, 3):
            for sv in alg.state_vectors():
                for vn in sv.keys():
                    v = sv[vn]
                    if v is not pristine[(sv.name(), vn)] and type(v) is aegen.GenValue:
                        c = getattr(v, 'content', None)
                        if isinstance(c, list):
                            c.append('scribbled')
                        elif isinstance(c, dict):
                            c['scribbled'] = self.loads_checked
                        else:
                            v.content = ('scribbled', self.loads_checked)
                        self.probes['loaded_value_modified_in_place'] += 1

    def classify_load(self, me, target, runid, got, pristine):
        """which other entry of the model the returned data belongs to (signature of a C06 violation)"""
        if got is pristine:
            return 'untouched_but_stored'
        seal = getattr(got, '_version_seal_', None)
        content = sm.canon(getattr(got, 'content', None))
        best = None
        for k, alts in self.model.prime.items():
            if any(a is not sm.ABSENT and sm.canon(a[0]) == content for a in alts) and seal is not None and tuple(seal) == k[8]:
                if k[1] != target:
                    cand = 'other_target'
                elif k[2:] != me:
                    cand = 'other_' + '+'.join(n for n, a, b in zip(('task', 'alg', 'algver', 'sv', 'svver', 'val', 'valver'), k[2:], me) if a != b)
                elif k[0] != runid:
                    cand = 'other_run'
                else:
                    cand = 'same_entry'
                if best is None or cand < best:
                    best = cand
        return best or 'unknown_data'

    # other client operations -------------------------------------------------
    def c_cadd(self, cl, op):
        import dawgie.db

        r = dawgie.db.add(op['target'])
        if r is not True:
            self.probes['add_returned_not_true'] += 1  # not a clause of any property: observed only

    def c_crecord(self, cl, op):
        import dawgie.pl.version as version

        aspec = self.spec.by[op['alg']]
        bot, _alg, _t = self.make(aspec, op['run'], op['target'])
        bot._w = None
        version.record(bot, only=aspec.name)

    def c_ctargets(self, cl, op):
        import dawgie.db

        got = dawgie.db.targets()
        self.probes['targets_listed_by_client'] += 1
        if len(set(got)) != len(got):
            self.probes['targets_repeated'] += 1  # observed only; the table bijection is judged by check_catalogue

    # -- phases ----------------------------------------------------------------
    def phase(self, ops=None, mix=None, max_clients=None, msv=True, nops=None, quiet=False):
        ch, cfg = self.ch, self.cfg
        self.phase_no += 1
        self.clients = []
        if ops is None:
            n = 1 + ch.choose('ph.nclients', max_clients or cfg['max_clients'])
            ops = []
            for i in range(n):
                k = 1 + ch.choose('ph.nops', nops or cfg['ops_per_client'])
                ops.append([self.gen_client_op(mix=mix) for _ in range(k)])
            if getattr(self, 'aim_sibling', False):
                # aimed: a sibling of the algorithm with catalogue id 1 is released in a new version (new row: id 10..19)
                # and stores next to it, same run, same target
                self.aim_sibling = False
                rows, _ = self.catalogue().resolve()
                ones = [r for r in rows if r['ids'][3] == 1 and f"{r['task']}.{r['alg']}" in self.spec.by]
                if ones:
                    r = ones[ch.choose('ph.aim_row', len(ones))]
                    me = self.spec.by[f"{r['task']}.{r['alg']}"]
                    sibs = [x for x in self.spec.algs if x.pkg == me.pkg and x.name != me.name and x.kind == me.kind]
                    if sibs:
                        sib = sibs[ch.choose('ph.aim_sib', len(sibs))]
                        sib.ver = (9, self.phase_no, len(rows) % 7)
                        up = self.gen_client_op(force='update')
                        up['alg'], up['target'], up['run'], up['msv'] = sib.full, r['target'], r['run'], False
                        up['contents'], up['labels'] = {}, {}
                        for s_, _sv, vals in sib.svs:
                            for v_, _vv in vals:
                                c, lab = self.draw_content()
                                up['contents'][(s_, v_)] = c
                                up['labels'][f'{s_}.{v_}'] = lab
                        ops[0].insert(0, up)
                        self.probes['aimed_sibling_store_with_prefix_related_id'] += 1
            if not msv:
                for lst in ops:
                    for o in lst:
                        o['msv'] = False
            if len(self.big_keys) == 2 and not self.big_loaded and all(k[3] < self.phase_no for k in self.big_keys) and self.imager is None:
                # both large values were stored in earlier phases: load both
                self.big_loaded = True
                ops.append([dict(kind='load', alg=k[0], target=k[1], run=k[2]) for k in self.big_keys])
                self.probes['large_values_loaded_back'] += 1
        for i, lst in enumerate(ops):
            self.clients.append(Client(self, i, f'c{self.phase_no}.{i}', lst))
        self.exclusion_suspect = False
        self.plan_faults()
        self.actor = PipelineActor(self, 0 if quiet else ch.choose('ph.nactor', cfg['actor_ops'] + 1))
        self.sim.actors[:] = [self.actor]
        for cl in self.clients:
            cl.thread = self.sim.spawn(cl.name, lambda cl=cl: self.client_main(cl))
        self.phase_start = self.sim.steps
        r = self.sim.run(until=lambda: not any(c.alive for c in self.clients), max_steps=self.sim.steps + cfg['max_steps'])
        self.sim.actors[:] = []
        if r != 'until':
            self.probes['budget_' + r] += 1
            if r == 'quiescent':
                stuck = [c.name for c in self.clients if c.alive]
                self.op(f'phase ended with clients blocked: {stuck}')
                self.probes['clients_blocked'] += 1
                if not self.faulty_history():
                    self.violate(cfg['prop'], 'client_blocked_forever', 'no_fault',
                                 f'clients {stuck} wait for ever in a history without faults')
            for c in self.clients:
                if c.alive:
                    self.kill_client(c, count=False)
        for c in self.clients:
            th = c.thread
            if th.exc is not None:
                raise th.exc  # harness bug (DAWGIE exceptions are caught per operation)
        self.clients = []
        self.drain()
        self.note_unhandled()

    def drain(self):
        """let connection-lost notifications and the one-second LoopingCall.stop timers run out"""
        self.sim.run(max_steps=self.sim.steps + 400, max_time=self.sim.now + 4.0)

    def note_unhandled(self):
        new = self.sim.unhandled[self.nunhandled:]
        self.nunhandled = len(self.sim.unhandled)
        for u in new:
            self.op(f'pipeline-side exception: {u}')
            self.probes['pipeline_exception'] += 1
            if not self.faulty_history():
                self.violate(self.cfg['prop'], 'pipeline_exception', str(u[3]).split('(')[0][:40],
                             f'exception in the pipeline process in a history without faults: {u}')

    # -- faults -----------------------------------------------------------------
    def plan_faults(self):
        ch, cfg = self.ch, self.cfg
        self.planned = []
        if not cfg['faults']:
            return
        if ch.flip('fault.kill', *cfg['kill']):
            self.planned.append(('kill', ch.choose('fault.kill_at', 900), ch.choose('fault.kill_who', len(self.clients))))
        if ch.flip('fault.reset', *cfg['reset_conn']):
            self.planned.append(('reset', ch.choose('fault.reset_at', 900), ch.choose('fault.reset_which', 8)))
        if ch.flip('fault.crash_mid', *cfg['crash_mid']):
            self.planned.append(('crash', ch.choose('fault.crash_at', 900), 0))

    def after_step(self, kind, label):
        if self.stopped and core.current_thread() is None:
            raise Stop()
        for cl in self.clients:
            if cl.thread is not None and cl.thread.dead and not cl.killed:
                # declared dead by the kernel (spinning on EOF for ever) or by the crash seam: the process is
                # gone, its sockets reset
                if cl.thread.label == 'spinning':
                    self.probes['client_spinning_on_eof'] += 1
                    self.op(f'{cl.name} reads EOF for ever (declared dead)')
                self.kill_client(cl, count=False)
        if not getattr(self, 'planned', None):
            return
        rel = self.sim.steps - self.phase_start
        for f in list(self.planned):
            if f[1] <= rel:
                self.planned.remove(f)
                if f[0] == 'kill':
                    cl = self.clients[f[2] % len(self.clients)] if self.clients else None
                    if cl is not None and cl.alive:
                        self.kill_client(cl)
                elif f[0] == 'reset':
                    live = [c for c in self.sim.conns if not (c.client_gone or c.server_gone)]
                    if live:
                        c = live[f[2] % len(live)]
                        self.faults['fault.connection_reset'] += 1
                        self.op(f'FAULT: connection {c.cid} reset')
                        c.reset('reset')
                        # if that was the lock connection of a client which keeps running, the pipeline has freed the
                        # lock while the client still writes: mutual exclusion is void for the rest of this phase
                        self.exclusion_suspect = True
                elif f[0] == 'crash':
                    if any(c.alive for c in self.clients):
                        self.crash_reopen(mid_phase=True)

    def disk_full(self, label):
        """asked at every write-like I/O step inside dawgie.db.util when the configuration enables ENOSPC"""
        if not self.cfg['faults'] or not self.clients:
            return False
        if self.ch.flip('fault.enospc', *self.cfg['enospc']):
            self.faults['fault.disk_full'] += 1
            self.op(f'FAULT: ENOSPC at {label}')
            return True
        return False

    def kill_client(self, cl, count=True):
        """the client process dies (SIGKILL): its thread is never released again, no finally block runs,
        all its sockets reset"""
        if count:
            self.faults['fault.client_killed'] += 1
            self.op(f'FAULT: client {cl.name} killed' + (f' during {cl.cur["kind"]}' if cl.cur else ''))
        cl.killed = True
        cl.thread.dead = True
        self.settle_inflight(cl)
        for s in cl.socks:
            c = getattr(s, 'conn', None)
            if c is not None and not (c.client_gone and c.server_gone):
                c.reset('reset')

    # -- the run -------------------------------------------------------------------
    def run(self):
        cfg = self.cfg
        try:
            self.build()
            self.check_all('boot')
            for _ in range(cfg['phases']):
                self.between()
                self.check_stop()
                self.phase()
                self.check_stop()
                self.check_all('phase')
                self.check_stop()
            self.between()
            self.check_stop()
            if cfg['enum'] or cfg['calibrate'] or cfg['real_kill'][0]:
                from worlds import store_crash

                store_crash.enumerate_updates(self)
            if len(self.big_keys) == 2 and not self.big_loaded:
                # the pair of large values was completed in the last phase: one more phase loads both back
                self.big_loaded = True
                self.probes['large_values_loaded_back'] += 1
                self.phase(ops=[[dict(kind='load', alg=k[0], target=k[1], run=k[2]) for k in self.big_keys]])
                self.check_stop()
            self.final()
        except Stop:
            pass
        finally:
            for cl in self.clients:
                if cl.alive:
                    cl.thread.dead = True
            try:
                env.close_db()
            finally:
                from worlds import store_io as sio

                sio.uninstall()
                sio.S.reset()
                env.uninstall_conn_pruning(self.sim)
                if self.dir:
                    env.cleanup(self.dir)
        return self.result()

    def final(self):
        """clean close and reopen: everything must still be there"""
        self.b_reopen()
        self.check_all('final')

    def result(self):
        sim = self.sim
        faults = dict(self.faults)
        if self.crash_points:
            faults['fault.crash_point_enumerated'] = self.crash_points
        injected = ('net.chunked', 'net.delayed', 'net.coalesced', 'net.short_read', 'net.reset', 'net.refused', 'net.recv_after_reset',
                    'net.abort_after_exception')
        faults.update({k: v for k, v in sim.counts.items() if k in injected})
        interesting = sim.counts['sched.reordered'] > 0 or sum(self.faults.values()) > 0 or self.crash_points > 0
        nontrivial = self.model.acked >= 2 and (self.loads_checked + self.searches_checked + self.crash_points) >= 1 and interesting
        self.probes['connections'] += sim.counts['net.connections']
        self.probes['hash_calls_real'] += env.HASH['real_calls']
        return dict(violations=self.violations, probes=dict(self.probes), faults=faults, steps=sim.steps, vtime=round(sim.now, 3),
                    digest=sim.digest(), nontrivial=bool(nontrivial), kinds=dict(sim.kinds), sample=self.ops[:60], ops=self.ops,
                    acked=self.model.acked, loads=self.loads_checked, searches=self.searches_checked)

    # -- between-phase operations ------------------------------------------------------
    def between(self):
        ch, cfg = self.ch, self.cfg
        n = ch.choose('bt.n', cfg['between'] + 1)
        bag = [k for k, w in cfg['mix_between'].items() for _ in range(w)]
        for _ in range(n):
            kind = bag[ch.choose('bt.kind', len(bag))]
            getattr(self, 'b_' + kind)()
            self.note_unhandled()
            self.check_stop()
            if kind not in ('trace', 'search', 'check'):
                self.check_catalogue(kind)
                self.check_stop()

    def b_check(self):
        self.check_all('between')

    def b_bump(self):
        ch = self.ch
        a = self.draw_alg('bt.alg')
        lvl = ch.choose('bt.bump_level', 3)
        ver = VER_POOL[ch.choose('bt.bump_ver', len(VER_POOL))]
        if lvl == 0:
            a.ver = ver
            what = a.full
        else:
            i = ch.choose('bt.bump_sv', len(a.svs))
            s, sv, vals = a.svs[i]
            if lvl == 1:
                a.svs[i] = (s, ver, vals)
                what = f'{a.full}.{s}'
            else:
                j = ch.choose('bt.bump_val', len(vals))
                vals = list(vals)
                vals[j] = (vals[j][0], ver)
                a.svs[i] = (s, sv, vals)
                what = f'{a.full}.{s}.{vals[j][0]}'
        self.probes['version_bump'] += 1
        self.op(f'software update: {what} is now version {sm.vstr(ver)}')

    def b_pad(self):
        """years pass: other engines record algorithms of their own; the catalogue ids of this engine's later rows
        cross a power of ten (row 1 next to rows 10..19: ids that are decimal prefixes of one another)"""
        from dawgie.db.shelve import util
        from dawgie.db.shelve.state import DBI

        dbi = DBI()
        if not self.db_open or not len(dbi.indices.task):
            return
        n = len(dbi.indices.alg)
        goal = 10 if n < 10 else (100 if 20 <= n < 100 and self.ch.flip('bt.pad_100', 1, 4) else n)
        if n == 0:
            goal = 1  # so that the first algorithm of this engine gets id 1, not 0
        added = 0
        while len(dbi.indices.alg) < goal:
            util.append(f'zzpad{len(dbi.indices.alg)}', dbi.tables.alg, dbi.indices.alg, 0, util.LocalVersion('1.0.0'))
            added += 1
        if added and len(dbi.indices.alg) == 10:
            self.aim_sibling = True  # the next new algorithm row gets an id 10..19
        if added:
            self.probes['catalogue_padded'] += 1
            self.op(f'pl: {added} algorithms of other engines recorded (alg table now has {len(dbi.indices.alg)} rows)')

    def catalogue(self):
        from dawgie.db.shelve.state import DBI

        dbi = DBI()
        return sm.Catalogue({n: dict(getattr(dbi.tables, n)) for n in env.TABLES})

    def b_replace(self):
        """aimed history: the pipeline asks for the next run id, then every entry one run of an algorithm left on a
        target is removed, and the algorithm stores the same number of values again under a run id of its own that is
        higher than anything stored (a job carrying its run id) - the primary table is as large as before"""
        import dawgie.db

        cat = self.catalogue()
        rows, _bad = cat.resolve()
        rows = [r for r in rows if f"{r['task']}.{r['alg']}" in self.spec.by and r['sv'] != '__metric__']
        if not rows:
            return
        r = rows[self.ch.choose('bt.rp_row', len(rows))]
        a = self.spec.by[f"{r['task']}.{r['alg']}"]
        mine = [x for x in rows if (x['run'], x['target'], x['task'], x['alg']) == (r['run'], r['target'], r['task'], r['alg'])]
        want = {(s_, v_) for s_, _sv, vals in a.svs for v_, _vv in vals}
        if {(x['sv'], x['val']) for x in mine} != want or len(mine) != len(want):
            return  # several versions or a partial set: the sizes would not match
        self.check_catalogue('next')
        self.quiet_next = True  # from here to the end of the store nobody asks for the next run id
        for x in mine:
            names = cat.names_of(x)
            self.do_remove(names, lambda n=names: dawgie.db.remove(*n), f'remove{names}')
            if self.stopped:
                self.quiet_next = False
                return
        hi = max(x['run'] for x in rows)
        up = self.gen_client_op(force='update')
        up['alg'], up['target'], up['run'], up['msv'] = a.full, r['target'], hi + 1 + self.ch.choose('bt.rp_run', 3), False
        up['contents'], up['labels'] = {}, {}
        for s_, v_ in sorted(want):
            c, lab = self.draw_content()
            up['contents'][(s_, v_)] = c
            up['labels'][f'{s_}.{v_}'] = lab
        self.probes['aimed_remove_then_store_same_size'] += 1
        self.quiet_next = False
        self.phase(ops=[[up]], quiet=True)  # that job alone, nobody else asking anything meanwhile
        self.check_catalogue('next')

    def b_remove(self):
        """dawgie.db.remove addressed by exact names: C08 clause 2"""
        import dawgie.db

        ch = self.ch
        cat = self.catalogue()
        rows, _bad = cat.resolve()
        if not rows:
            return
        r = rows[ch.choose('bt.rm_row', len(rows))]
        names = cat.names_of(r)
        self.do_remove(names, lambda: dawgie.db.remove(*names), f'remove{names}')

    def do_remove(self, req, call, text):
        """req: (run, target, task, alg, sv, val) with None = any (worm.consume only)"""
        cat = self.catalogue()
        before, _ = cat.resolve()
        bkeys = collections.Counter(cat.key_of(r) for r in before)
        match = lambda n: all(e is None or e == x for e, x in zip(req, n))  # noqa: E731
        expect = collections.Counter(cat.key_of(r) for r in before if match(cat.names_of(r)))
        try:
            call()
        except Exception as e:  # noqa
            self.violate('C08', 'remove_raised', type(e).__name__, f'{text} raised {e!r}')
            self.resync()
            return
        cat2 = self.catalogue()
        after, _ = cat2.resolve()
        akeys = collections.Counter(cat2.key_of(r) for r in after)
        gone = bkeys - akeys
        appeared = akeys - bkeys
        self.op(f'pl: {text}: {sum(gone.values())} entries deleted (exact names: {sum(expect.values())})')
        self.probes['remove'] += 1
        if sum(expect.values()) < len(before):
            self.probes['remove_with_bystanders'] += 1
        if gone != expect or appeared:
            extra = sorted((gone - expect).keys(), key=repr)
            missing = sorted((expect - gone).keys(), key=repr)
            kinds = set()
            for k in extra:
                n = (k[0], k[1], k[2], k[3], k[5], k[7])
                for a, b in zip(n, req):
                    if b is not None and a != b:
                        kinds.add('prefix_sibling' if isinstance(a, str) and isinstance(b, str) and collides(b, a) else 'unrelated')
            sig = ('deleted_' + '+'.join(sorted(kinds))) if extra else ('missing' if missing else 'appeared')
            self.violate('C08', 'remove_not_exact', sig,
                         f'{text} must delete exactly {sorted(expect, key=repr)}; also deleted {extra}; not deleted {missing}', fatal=False)
        # the model follows what really happened so that later oracles stay meaningful
        self.model.drop(list(gone.keys()))
        for k in list(self.model.prime):
            if match((k[0], k[1], k[2], k[3], k[5], k[7])) and k not in akeys:
                del self.model.prime[k]

    def b_consume(self):
        """dawgie.db.tools.worm.consume on a closed database, with wildcards"""
        import dawgie.db
        import dawgie.db.tools.worm as worm

        ch = self.ch
        cat = self.catalogue()
        rows, _ = cat.resolve()
        if not rows:
            return
        r = rows[ch.choose('bt.cs_row', len(rows))]
        names = list(cat.names_of(r))
        mask = 1 + ch.choose('bt.cs_mask', 62)  # at least one field given, never all six None
        req = tuple(n if mask & (1 << i) else None for i, n in enumerate(names))
        def call():
            # the tool is run on a closed database: it opens and closes it itself
            dawgie.db.close()
            try:
                worm.consume(*req)
            finally:
                from dawgie.db.shelve.state import DBI

                if not all(t is not None for t in DBI().tables):
                    dawgie.db.open()

        self.do_remove(req, call, f'worm.consume{req}')
        self.probes['consume'] += 1
        self.after_reopen('consume')

    def b_reset(self):
        """dawgie.db.reset: the algorithm object gets the versions recorded with the given run"""
        import dawgie.db

        ch = self.ch
        cat = self.catalogue()
        rows, _ = cat.resolve()
        if not rows:
            return
        r = rows[ch.choose('bt.rs_row', len(rows))]
        def idpfx(x, y):  # catalogue ids one of which is a decimal prefix of the other (1 and 10..19)
            a, b = str(x['ids'][3]), str(y['ids'][3])
            return a != b and (a.startswith(b) or b.startswith(a))

        crowded = [x for x in rows if any((collides(x['alg'], y['alg']) or idpfx(x, y)) and (y['run'], y['target'], y['task']) == (x['run'], x['target'], x['task'])
                                          for y in rows)]
        if any(idpfx(x, y) and (y['run'], y['target'], y['task']) == (x['run'], x['target'], x['task']) for x in rows for y in rows):
            self.probes['reset_with_prefix_related_ids_in_one_run'] += 1
        if crowded and ch.flip('bt.rs_crowded', 2, 3):
            # a run/target/task in which a prefix-related sibling algorithm also has entries
            r = crowded[ch.choose('bt.rs_crow', len(crowded))]
            self.probes['reset_next_to_prefix_sibling'] += 1
        run, target, task = r['run'], r['target'], r['task']
        cands = [a for a in self.spec.algs if a.pkg == task]
        if not cands:
            return
        own = [a for a in cands if a.name == r['alg']]
        if own and ch.flip('bt.rs_other', 1, 3) is False:
            aspec = own[0]  # usually the algorithm that really has entries in that run
        else:
            aspec = cands[ch.choose('bt.rs_alg', len(cands))]
        _bot, alg, _t = self.make(aspec, run, target)
        before = (tuple(alg._get_ver()), {sv.name(): tuple(sv._get_ver()) for sv in alg.state_vectors()})
        mine = [x for x in rows if (x['run'], x['target'], x['task'], x['alg']) == (run, target, task, aspec.name)]
        try:
            dawgie.db.reset(run, target, task, alg)
        except Exception as e:  # noqa
            self.violate('C08', 'reset_raised', type(e).__name__, f'reset({run},{target},{task},{aspec.name}) raised {e!r}', fatal=False)
            return
        got = tuple(alg._get_ver())
        self.op(f'pl: reset({run},{target},{task},{aspec.name}) -> {sm.vstr(got)}; recorded with that run: '
                f'{sorted({sm.vstr(x["algver"]) for x in mine})}')
        self.probes['reset'] += 1
        if mine:
            self.probes['reset_with_entries'] += 1
            # Leniency: when the run holds several versions of the algorithm any of them is accepted; when it
            # holds none for this exact name nothing is asserted (the code's documented fall-back).
            if got not in {x['algver'] for x in mine}:
                other = [x for x in rows if (x['run'], x['target'], x['task']) == (run, target, task) and x['algver'] == got
                         and x['alg'] != aspec.name]
                sig = 'prefix_sibling' if any(collides(aspec.name, o['alg']) for o in other) else 'other'
                self.violate('C08', 'reset_not_exact', sig,
                             f'reset({run},{target},{task},{aspec.name}): entries of exactly that name have versions '
                             f'{sorted({sm.vstr(x["algver"]) for x in mine})}, algorithm was set to {sm.vstr(got)} '
                             f'(that of {sorted({o["alg"] for o in other})})', fatal=False)
            for sv in alg.state_vectors():
                svrows = [x for x in mine if x['sv'] == sv.name() and x['algver'] == got]
                if svrows and tuple(sv._get_ver()) not in {x['svver'] for x in svrows}:
                    self.violate('C08', 'reset_not_exact', 'state_vector_version',
                                 f'reset({run},{target},{task},{aspec.name}): state vector {sv.name()} recorded with '
                                 f'{sorted({sm.vstr(x["svver"]) for x in svrows})}, set to {sm.vstr(sv._get_ver())}', fatal=False)
        del before

    def b_trace(self):
        self.do_trace()

    def do_trace(self):
        """dawgie.db.trace: latest run per target of the newest version of exactly-named task.alg"""
        import dawgie.db

        ch = self.ch
        cat = self.catalogue()
        rows, _ = cat.resolve()
        tas = cat.task_algs()
        if not tas:
            return
        k = 1 + ch.choose('tr.n', min(2, len(tas)))
        sel = []
        for _ in range(k):
            ta = tas[ch.choose('tr.which', len(tas))]
            if ta not in sel:
                sel.append(ta)
        names = [f'{t}.{a}' for t, a in sel]
        try:
            got = dawgie.db.trace(names)
        except Exception as e:  # noqa
            self.violate('C08', 'trace_raised', type(e).__name__, f'trace({names}) raised {e!r}', fatal=False)
            return
        self.probes['trace'] += 1
        targets = [t for t in dict(cat.t['target']) if not (t.startswith('__') and t.endswith('__'))]
        for tn in targets:
            for (task, alg), tan in zip(sel, names):
                vers = cat.alg_versions(task, alg)
                if not vers:
                    continue
                newest = max(v for v, _i in vers)
                runs = [x['run'] for x in rows if (x['target'], x['task'], x['alg'], x['algver']) == (tn, task, alg, newest)]
                allruns = [x['run'] for x in rows if (x['target'], x['task'], x['alg'], x['algver']) == (ALL, task, alg, newest)]
                want = max(runs) if runs else (max(allruns) if allruns else None)
                have = got.get(tn, {}).get(tan)
                if want is not None:
                    self.probes['trace_with_entries'] += 1
                if have != want:
                    sib = [x for x in rows if x['task'] == task and collides(alg, x['alg'])
                           and x['target'] in (tn, ALL) and x['run'] == have]
                    tids = [i for i, n in cat.by_id['task'].items() if sm.parse_name(n)[1] == task]
                    registered = [p[1] for p in (sm.parse_name(n) for n in cat.t['alg']) if p[0] in tids and collides(alg, p[1])]
                    sig = 'prefix_sibling' if (sib or registered) else ('missing' if have is None else 'wrong_run')
                    self.violate('C08', 'trace_not_exact', sig,
                                 f'trace({names})[{tn}][{tan}] = {have}; entries of exactly {tan} at its newest version '
                                 f'{sm.vstr(newest)} have latest run {want}' + (f'; {have} is the latest run of {sorted({x["alg"] for x in sib})}' if sib else ''),
                                 fatal=False)
        for tn in got:
            if tn not in targets:
                self.violate('C08', 'trace_not_exact', 'unknown_target', f'trace reports target {tn!r}', fatal=False)

    def b_reopen(self):
        import dawgie.db

        dawgie.db.close()
        self.db_open = False
        dawgie.db.open()
        self.db_open = True
        self.op('pl: clean close and reopen')
        self.probes['reopen'] += 1
        self.after_reopen('reopen')

    def after_reopen(self, why):
        self.check_catalogue(why, reopened=True)

    def b_purge(self):
        from worlds import store_c07

        store_c07.purge(self)

    def b_crash(self):
        self.crash_reopen(mid_phase=False)

    def crash_reopen(self, mid_phase):
        from worlds import store_crash

        store_crash.crash_in_process(self, mid_phase)

    def b_search(self):
        from worlds import store_search

        store_search.search_op(self, 'bt')

    # -- oracles over the catalogue ----------------------------------------------------------
    def check_all(self, why, cat=None, reopened=False, crashed=False):
        """one reading of the six tables (through the real shelve/dbm.dumb API) serves all three oracles"""
        cat = cat or self.catalogue()
        self.check_catalogue(why, reopened=reopened, crashed=crashed, cat=cat)
        if self.stopped:
            return
        self.audit(why, cat=cat)
        if self.stopped:
            return
        from worlds import store_c07

        store_c07.check_store(self, why, crashed=crashed, cat=cat)

    def resync(self):
        """after an operation failed half-way the model is rebuilt from the catalogue (the violation was reported)"""
        cat = self.catalogue()
        rows, _ = cat.resolve()
        keys = {cat.key_of(r): r['blob'] for r in rows}
        for k in list(self.model.prime):
            if k not in keys:
                del self.model.prime[k]

    def check_catalogue(self, why, reopened=False, crashed=False, cat=None):
        """C08 clause 1, after every operation and every reopen.
        Leniency: after a dirty crash names registered by un-acknowledged requests may be missing; surviving
        names must keep their ids."""
        import dawgie.db
        from dawgie.db.shelve.state import DBI

        dbi = DBI()
        cat = cat or self.catalogue()
        idx = {n: list(getattr(dbi.indices, n)) for n in env.TABLES if n != 'prime'}
        for kind, tn, msg in cat.check_bijection(idx):
            self.violate('C08', 'table_' + kind, 'after_reopen' if reopened else 'history', f'[{why}] table {tn}: {msg}')
        for tn, seen in self.seen_ids.items():
            tab = cat.t[tn]
            for name, i in seen.items():
                if name not in tab:
                    if crashed:
                        self.probes['name_lost_in_crash'] += 1
                        continue
                    self.violate('C08', 'name_lost', 'after_reopen' if reopened else 'history', f'[{why}] {name!r} (id {i}) disappeared from table {tn}')
                elif tab[name] != i:
                    self.violate('C08', 'id_changed', 'after_reopen' if reopened else 'history', f'[{why}] {name!r} had id {i}, now {tab[name]}')
            if crashed:
                self.seen_ids[tn] = dict(tab)
            else:
                seen.update(tab)
        rows, bad = cat.resolve()
        for kind, ks, msg in bad:
            self.violate('C08', 'entry_' + kind, 'chain', f'[{why}] primary entry {ks}: {msg}')
        # next() is asked by the pipeline now and then, not after every single operation: an observer that asks each
        # time would itself keep any state next() may hold fresh (observation must not perturb)
        if why != 'next' and (getattr(self, 'quiet_next', False) or not self.ch.flip('chk.next', 1, 4)):
            self.probes['catalogue_checked'] += 1
            return
        try:
            nxt = dawgie.db.next()
        except Exception as e:  # noqa
            self.violate('C08', 'next_raised', type(e).__name__, f'[{why}] next() raised {e!r}')
            return
        hi = max([r['run'] for r in rows], default=None)
        if hi is not None:
            self.probes['next_checked_with_entries'] += 1
            if not (isinstance(nxt, int) and nxt > hi):
                self.violate('C08', 'next_not_greater', 'le_max', f'[{why}] next run id {nxt}, stored run ids reach {hi}')
        if reopened:
            self.probes['catalogue_checked_after_reopen'] += 1
        self.probes['catalogue_checked'] += 1

    def audit(self, why, cat=None):
        """model against the primary table, read directly (DESIGN C06 "never different"): at quiet points every
        definite model entry is present with the model's blob name, every entry present is one the model knows"""
        cat = cat or self.catalogue()
        rows, _ = cat.resolve()
        have = {}
        for r in rows:
            have[cat.key_of(r)] = r['blob']
        m = self.model
        for k, alts in m.prime.items():
            names = [a[1] for a in alts if a is not sm.ABSENT]
            if k not in have:
                if sm.ABSENT not in alts:
                    self.violate('C06', 'entry_lost', why if why in ('reopen', 'final', 'crash') else 'history',
                                 f'[{why}] stored entry {k} is no longer in the primary table')
            elif have[k] not in names:
                self.violate('C06', 'entry_altered', 'blob', f'[{why}] entry {k} names blob {have[k][:12]}, stored content has {[n[:12] for n in names]}')
        for k in have:
            if k not in m.prime:
                near = [x for x in m.prime if x[:2] == k[:2] and (x[2], x[3], x[5], x[7]) == (k[2], k[3], k[5], k[7])]
                self.violate('C06', 'entry_unexpected', 'other_version' if near else 'unknown',
                             f'[{why}] primary table holds {k} which no update stored' + (f' (stored: {near})' if near else ''))


class PipelineActor:
    """pipeline-local operations issued from the reactor thread between any two steps of the clients"""

    def __init__(self, world, n):
        self.w, self.left = world, n
        self.at = world.sim.now
        self.gaps = [0.0, 0.0, 0.4, 1.5, 3.1]

    def next_time(self, now):
        return self.at if self.left > 0 else None

    def enabled(self, now):
        if self.left > 0 and self.at <= now + 1e-12:
            return [('pl', self.act)]
        return []

    def act(self):
        w, ch = self.w, self.w.ch
        self.left -= 1
        self.at = w.sim.now + self.gaps[ch.choose('pl.gap', len(self.gaps))]
        bag = [k for k, n in w.cfg['mix_actor'].items() for _ in range(n)]
        kind = bag[ch.choose('pl.kind', len(bag))]
        getattr(self, 'a_' + kind)()
        w.note_unhandled()

    def a_add(self):
        import dawgie.db

        w = self.w
        t = w.draw_target()
        r = dawgie.db.add(t)
        w.op(f'pl: add target {t}')
        if r is not True:
            w.probes['add_returned_not_true'] += 1
        w.check_catalogue('add')

    def a_record(self):
        import dawgie.pl.version as version

        w = self.w
        a = w.draw_alg('pl.alg')
        bot, _alg, _t = w.make(a, 1, 'T')
        bot._w = None
        version.record(bot, only=a.name)
        w.op(f'pl: record versions of {w.alg_brief(a.full)}')
        w.probes['record'] += 1
        w.check_catalogue('record')

    def a_next(self):
        self.w.check_catalogue('next')

    def a_check(self):
        from worlds import store_c07

        self.w.check_catalogue('mid-phase')
        store_c07.check_references(self.w, 'mid-phase')

    def a_versions(self):
        import dawgie.db

        # versions() is not one of the operations the statement of C08 names: it is exercised (it walks the same
        # parent chain) and only observed
        w = self.w
        try:
            _t, av, _sv, _vv = dawgie.db.versions()
        except Exception as e:  # noqa
            w.probes['versions_raised'] += 1
            w.op(f'pl: versions() raised {e!r}')
            return
        cat = w.catalogue()
        for key in av:
            task, alg = key.split('.')
            known = {sm.vstr(v) for v, _i in cat.alg_versions(task, alg)}
            if not set(av[key]) <= known:
                w.probes['versions_reports_other_names'] += 1
        w.probes['versions'] += 1

    def a_trace(self):
        self.w.do_trace()

    def a_search(self):
        from worlds import store_search

        store_search.search_op(self.w, 'pl', kinds=('find',))

    def a_facet(self):
        from worlds import store_search

        store_search.search_op(self.w, 'pl', kinds=('facet',))

    def a_fesearch(self):
        from worlds import store_search

        store_search.search_op(self.w, 'pl', kinds=('fe',))


def warmup():
    boot.setup()
    env.patch_dbi()
    env.calibrate_hash()
    import dawgie.db.tools.worm  # noqa
    import dawgie.fe.api.database  # noqa
    import dawgie.fe.api.facet  # noqa
    from worlds import store_c07, store_crash, store_search  # noqa

    env.sweep_stale()
    return True


def run(ch, cfg):
    return StoreWorld(ch, cfg).run()
