"""W-PIPE with the algorithm engine on disk: generated source packages, the real scanner
(scan.for_factories -> advanced_factories / deprecated_factories with os.listdir), real imports, and - at every
software update - rewritten sources followed by the real reload path (RollbackImporter.reload + scan + build).

This is variant (B) of C09 / C15 (DESIGN section 5): after an in-process update the task graph and the scheduled
versions are compared with what the *sources on disk* declare.  It also puts the real `_reload` body (module
reloading) under the life-cycle oracles of C10.
"""

import builtins
import importlib
import os
import sys

from sim import boot
from worlds import aegen, fsm, pipe

_REAL = {}


def warmup():
    pipe.warmup()
    import dawgie.pl.scan as scan

    _REAL.setdefault('for_factories', scan.for_factories)
    _REAL.setdefault('import', builtins.__import__)
    _REAL.setdefault('os', scan.os)
    return True


class _OsShim:
    """dawgie.pl.scan's view of `os`: directory listings come back in a chooser-chosen order"""

    def __init__(self, world):
        self._w = world

    def __getattr__(self, name):
        return getattr(os, name)

    def listdir(self, path):
        names = sorted(os.listdir(path))
        out = []
        while names:
            out.append(names.pop(self._w.ch.choose('disk.listdir', len(names))))
        return out


class DiskMixin:
    """puts the generated engine on disk under whatever W-PIPE world it is mixed into"""

    def build(self):
        import dawgie.context as ctx
        import dawgie.pl.scan as scan

        if 'for_factories' not in _REAL:
            warmup()
        super().build()
        # forget the in-memory materialisation: the engine is what is on disk
        builtins.__import__ = _REAL['import']  # a previous run's RollbackImporter (process-global hook) is gone
        top = self.spec.base.split('.')[0]  # (a dotted base package: its in-memory parent packages go as well)
        for k in [k for k in sys.modules if k == top or k.startswith(top + '.')]:
            del sys.modules[k]
        self.root = os.path.join(self.dir, 'ae')
        sys.path[:] = [p for p in sys.path if not p.startswith('/dev/shm/verif-')]
        sys.path.insert(0, self.root)
        self.style = self.cfg.get('style') or ['explicit', 'auto'][self.ch.choose('disk.style', 2)]
        self.probes['engine_style_' + self.style] += 1
        written = aegen.write_disk(self.spec, self.root, style=self.style)
        importlib.invalidate_caches()
        self.order_routines()
        ctx.ae_base_path = os.path.join(self.root, *self.spec.base.split('.'))
        ctx.ae_base_package = self.spec.base
        scan.for_factories = _REAL['for_factories']
        scan.os = _OsShim(self)
        scan.REGISTRY.clear()
        scan.IGNORE.clear()
        self.op(f'engine written to disk: {written}')

    def order_routines(self):
        """dawgie.base keeps the registered classes in sets (hashed by address): the order in which a bot lists its
        routines is address-space noise.  It is replaced by a per-run permutation drawn from the chooser."""
        import dawgie.base as base

        salt = self.ch.choose('disk.routine_order', 1 << 16)

        def key(c):
            import hashlib

            return hashlib.sha256(f'{salt}:{c.__module__}.{c.__qualname__}'.encode()).hexdigest()

        for cls, attr in ((base.Task, '_Task__algorithms'), (base.Analysis, '_Analysis__analyzers'), (base.Regress, '_Regress__regressions')):
            def routines(bot, _attr=attr):
                return [c() for c in sorted(getattr(bot, _attr), key=key)]

            cls.routines = routines

    def user_event(self):
        had = self.pending
        super().user_event()
        if self.pending is not None and self.pending is not had:
            # the new release is on disk before the pipeline is told to reload
            written = aegen.write_disk(self.pending, self.root, style=self.style)
            importlib.invalidate_caches()
            self.op(f'sources rewritten: {written}')
            self.probes['sources_rewritten'] += bool(written)

    def commit_update(self):
        """the (re)load scans the software: what is on disk is the software in hand"""
        if getattr(self, 'pending', None) is None:
            return
        self.spec = self.pending
        self.pending = None
        self.ref = aegen.Ref(self.spec)
        self.G.ref = self.ref
        self.eng = aegen.Engine(self.spec)  # only used to write persisted versions the way a worker would; never installed
        self.probes['software_update_loaded'] += 1

    def install_monitors(self):
        super().install_monitors()
        import dawgie.pl.schedule as schedule

        w = self
        inner = schedule.build  # PipeWorld's wrapper (reads persisted versions, calls the real build, then the oracles)

        def build(factories, latest, previous):
            w.commit_update()  # the scanner has just run on the new sources
            return inner(factories, latest, previous)

        schedule.build = build

    def result(self):
        r = super().result()
        sys.path[:] = [p for p in sys.path if p != getattr(self, 'root', None)]
        return r


class DiskWorld(DiskMixin, pipe.PipeWorld):
    def __init__(self, ch, cfg):
        base = dict(events=8, record_on_run=True, mix=dict(run=4, rerun_executing=0, add_target=1, run_all=1, run_empty=0, update=4))
        base.update(cfg or {})
        super().__init__(ch, base)


class DiskFsmWorld(DiskMixin, fsm.FsmWorld):
    """life-cycle stimuli (submissions, resets) with the engine on disk: the reload really reloads modules"""

    def _sync(self, had):
        if self.pending is not None and self.pending is not had:
            written = aegen.write_disk(self.pending, self.root, style=self.style)
            importlib.invalidate_caches()
            self.op(f'sources rewritten: {written}')
            self.probes['sources_rewritten'] += bool(written)

    def on_submission_accepted(self, changeset, priority):
        had = self.pending
        super().on_submission_accepted(changeset, priority)
        self._sync(had)

    def reset_request(self):
        had = self.pending
        super().reset_request()
        self._sync(had)


def run(ch, cfg):
    cfg = dict(cfg or {})
    if cfg.pop('lifecycle', False):
        return DiskFsmWorld(ch, cfg).run()
    return DiskWorld(ch, cfg).run()
