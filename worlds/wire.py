"""W-WIRE: framing of the farm / database / log channels and the legacy
handshake (property C14).

real (unmodified tree code): pl.farm.Hand.dataReceived/_process/_reg + Foreman,
db.shelve.comms.Worker.dataReceived/_send + DBSerializer, Connector.__do,
comms.acquire/release, pl.logger.LogSink + LogSinkFactory + TwistedHandler,
security.TwistedWrapper / connect / _send / _recv, pl.message.send/receive/dumps/loads,
pickle, struct, twisted Protocol/Factory.

stubs: Hand._res (the scheduler behind a reply: framing is the subject, not what
a message then does), comms.Worker.do *body* (the request is recorded at entry, the
answer is a deterministic object written through the real Worker._send), the log
sink's "actual" handler (a recorder), context.fsm (constant is_pipeline_active),
security._PGP (FakePGP; calibrated against gpg in mode 'gpg'), security.random /
clock (chooser / virtual clock), security.socket (simulated sockets), TCP (SimConn
or a fake transport with Twisted's semantics: nothing is delivered to a protocol
after it called loseConnection).

One run = one mode (cfg['mode']):
  enum    short streams, direct drive: every 1-cut and every 2-cut position set
          (= every 2-chunk and 3-chunk delivery) of streams <= 96 bytes; for longer
          streams every single cut and every pair inside a chooser-chosen window and
          among the frame-edge positions
  hs      legacy handshake, direct drive: {valid,tampered,foreign} x {4,wrong} x
          {valid,tampered,foreign} x {4,wrong} x {echo,wrong echo}, every single cut of
          every combination and every pair of cuts of a chooser-chosen combination
  long    payloads up to ~70 kB, direct drive, chooser-chosen chunkings
  net     scripted clients through SimConn on the simulated reactor
  client  the real client code (message.send/receive, Connector.__do, comms.acquire/
          release, TwistedHandler, security.connect/_send/_recv) in controlled threads
          on simulated sockets with short reads
  gpg     calibration of FakePGP against a real gnupg.GPG with fresh keys
"""

import collections
import hashlib
import itertools
import logging
import logging.handlers
import os
import pickle
import shutil
import struct
import subprocess
import types

from sim import boot, core

FARM, DB, LOG = 'farm', 'db', 'log'
CHANNELS = (LOG, FARM, DB)
PORT = {FARM: 8081, DB: 8083, LOG: 8082}
CHANNEL_OF_PORT = {v: k for k, v in PORT.items()}
REV = 'rev0'
HOST = 'pipeline.sim'
SHORT = 96

DEFAULT_CFG = dict(
    mode='enum', prop='C14', channels=list(CHANNELS),
    tls='both',            # 'both' (chooser) | True | False
    after_close=False,     # may a message follow one that makes the server close the connection?
    steer_client_hs=True,  # keep the server's challenge in one piece for security._recv (known defect, see p_wire.py)
    maxpay=70000, window=36, pairs_full=170, hs_combos=16, chunkings=16, max_steps=6000,
    net=(1, 3, 1, 4, 1, 3),  # chunk, delay, coalesce as num/den pairs
    short_read=(1, 2), flows=3,
)

CUR = [None]     # tape of the connection whose server-side code is executing right now
WORLD = [None]


def _ev(e):
    t = CUR[0]
    if t is not None:
        t.append(e)


# --------------------------------------------------------------------------
# the PGP stand-in
# --------------------------------------------------------------------------


def _mac(who, payload):
    return hashlib.sha1(b'key-of-' + who + b'/' + payload).hexdigest()[:4].encode()


class Verdict:
    """what _PGP.verify returns; _p5 assigns .valid after comparing the echo"""

    def __init__(self, valid):
        self._valid = bool(valid)
        self.status = 'signature valid' if valid else 'signature bad'

    @property
    def valid(self):
        return self._valid

    @valid.setter
    def valid(self, v):
        self._valid = bool(v)
        _ev(('echo', bool(v)))


class _Data:
    def __init__(self, data, status='ok'):
        self.data, self.status, self.ok = data, status, True


class FakePGP:
    """sign = b'SIG:<who>:<mac>:' + payload ; verify = signer in key ring and mac matches ;
    decrypt = payload (plus the newline gpg appends to clear-signed text that lacks one)"""

    def __init__(self, me=b'a', ring=(b'a',)):
        self.me, self.ring = me, tuple(ring)
        self.mangle = None  # client-side fault: function(bytes) -> bytes applied to the next signature(s)

    @staticmethod
    def make(who, payload):
        return b'SIG:' + who + b':' + _mac(who, payload) + b':' + payload

    @staticmethod
    def parse(data):
        parts = bytes(data).split(b':', 3)
        if len(parts) != 4 or parts[0] != b'SIG':
            return None
        return parts[1], parts[2], parts[3]

    def sign(self, message, passphrase=None, clearsign=True, **_kw):
        if isinstance(message, str):
            message = message.encode()
        data = self.make(self.me, bytes(message))
        if self.mangle is not None:
            data = self.mangle(data)
        return _Data(data, 'signature created')

    def verify(self, data):
        p = self.parse(data)
        ok = p is not None and p[0] in self.ring and p[1] == _mac(p[0], p[2])
        _ev(('verify', bool(ok)))
        return Verdict(ok)

    def decrypt(self, data):
        p = self.parse(data)
        payload = p[2] if p else b''
        if not payload.endswith(b'\n'):
            payload += b'\n'
        return _Data(payload)


class RandomShim:
    """security.random: the handshake nonce comes from the chooser"""

    def __init__(self, base):
        self.base, self.k = base, 0

    def random(self):
        v = (self.base + self.k * 137) % 1000
        self.k += 1
        return v / 1000.0 if v % 10 else (v + 1) / 10000.0


# --------------------------------------------------------------------------
# tapes, transports, canonical forms
# --------------------------------------------------------------------------


class Tape(list):
    pushing = False
    dead = False
    dropped = 0


def _sha(b):
    return hashlib.sha1(b).hexdigest()[:10]


def canon(obj):
    """comparable, deterministic description of a delivered object"""
    try:
        b = pickle.dumps(obj, 4)
    except Exception:  # noqa
        b = repr(obj).encode()
    name = type(obj).__name__
    t = getattr(obj, 'type', None)
    if t is not None and hasattr(t, 'name'):
        name += ':' + t.name
    f = getattr(obj, 'func', None)
    if f is not None and hasattr(f, 'name'):
        name += ':' + f.name
    return (name, len(b), _sha(b))


def canon_sent(obj):
    """canon of an object as it looks after one trip through pickle (what any receiver holds)"""
    return canon(pickle.loads(pickle.dumps(obj, pickle.HIGHEST_PROTOCOL)))


_VOLATILE = ('created', 'msecs', 'relativeCreated', 'thread', 'threadName', 'process', 'processName', 'taskName')


def canon_record(record):
    d = dict(record.__dict__)
    # logging.makeLogRecord stamps these from the real clock / pid / thread before applying the received dict
    items = sorted((k, repr(v)) for k, v in d.items() if k not in _VOLATILE)
    b = repr(items).encode()
    return ('log:' + str(d.get('name')), len(b), _sha(b))


class Recorder(logging.Handler):
    """the log sink's 'actual' handler"""

    def __init__(self):
        super().__init__(level=0)

    def handle(self, record):
        _ev(('msg', canon_record(record)))
        return True

    def emit(self, record):
        pass

    def flush(self):
        pass


class FakeTransport:
    """transport of a directly driven protocol.  Twisted semantics: loseConnection stops
    reading at once (abstract.FileDescriptor.loseConnection -> stopReading), writes are
    still accepted until the connection is really gone."""

    disconnected = False

    def __init__(self, tape):
        self.tape = tape
        self.disconnecting = False
        self.peer = core.Address('10.0.1.1', 40001)

    def write(self, data):
        if not isinstance(data, (bytes, bytearray)):
            raise TypeError('transport.write needs bytes')
        self.tape.append(('push' if self.tape.pushing else 'write', bytes(data)))

    def writeSequence(self, seq):
        self.write(b''.join(seq))

    def loseConnection(self, *_a, **_k):
        self.tape.append(('lose',))
        self.disconnecting = True

    def abortConnection(self):
        self.loseConnection()

    def getPeer(self):
        return self.peer

    def getHost(self):
        return core.Address('10.0.0.1', 0)

    def setTcpNoDelay(self, *_a):
        pass

    def setTcpKeepAlive(self, *_a):
        pass


def view(tape, mask_challenge=False):
    """what the property compares: delivered objects, bytes written back (write boundaries
    are not part of a byte stream: adjacent writes are merged), loseConnection calls,
    exceptions escaping dataReceived.  Harness-initiated pushes are left out."""
    out, acc = [], []

    def flush():
        if acc:
            b = b''.join(acc)
            del acc[:]
            if mask_challenge and b[4:15] == b'timestamp: ':
                n = struct.unpack('>I', b[:4])[0]
                out.append(('write', 'challenge'))
                b = b[4 + n:]
                if not b:
                    return
            out.append(('write', len(b), _sha(b)))

    for e in tape:
        if e[0] == 'write':
            acc.append(e[1])
        elif e[0] in ('msg', 'lose', 'exception'):
            flush()
            out.append(e)
    flush()
    return out


def msgs_of(v):
    return [e[1] for e in v if e[0] == 'msg']


def fmt(v):
    out = []
    for e in v:
        if e[0] == 'msg':
            out.append(f'{e[1][0]}/{e[1][1]}B')
        elif e[0] == 'write':
            out.append(f'write({e[1]})')
        else:
            out.append(':'.join(str(x) for x in e))
    return '[' + ' '.join(out) + ']'


def frame(b):
    return struct.pack('>I', len(b)) + b


def ref_parse(stream):
    """the harness' own de-framer (never the code under test)"""
    out, i = [], 0
    while i + 4 <= len(stream):
        n = struct.unpack('>I', stream[i:i + 4])[0]
        if i + 4 + n > len(stream):
            break
        out.append(stream[i + 4:i + 4 + n])
        i += 4 + n
    return out, stream[i:]


# --------------------------------------------------------------------------
# monkeypatches on the tree (installed once per process; they read per-run state)
# --------------------------------------------------------------------------

_INST = {}


class FsmStub:
    def __init__(self, active):
        self.active = active
        self.state = 'running' if active else 'gitting'

    def is_pipeline_active(self):
        return self.active


def install():
    if _INST:
        return
    import dawgie.pl.farm as farm
    import dawgie.db.shelve.comms as comms
    import dawgie.security as sec
    from dawgie.db.shelve.enums import Func, Mutex

    _INST['process'] = farm.Hand.__dict__['_process']
    _INST['connect'] = sec.connect
    real_process = _INST['process']

    def _process(self, msg):
        t = getattr(self, '_wire_tape', None)
        if t is not None:
            t.append(('msg', canon(msg)))
        return real_process(self, msg)

    def _res(_msg):
        return None

    def do(self, request):
        t = getattr(self, '_wire_tape', None)
        if t is not None:
            t.append(('msg', canon(request)))
        f = getattr(request, 'func', None)
        if f == Func.acquire:
            self._send(Mutex.unlock)  # lock granted at once; the connection stays open like the real one
        elif f == Func.dbcopy:
            pass  # the real body answers later from a pool thread
        elif f == Func.release:
            self._send(True)
        else:
            self._send(db_reply(request))

    farm.Hand._process = _process
    farm.Hand._res = staticmethod(_res)
    comms.Worker.do = do


def db_reply(request):
    """deterministic answer of the stubbed comms.Worker.do"""
    v = getattr(request, 'value', None)
    if isinstance(v, (bytes, bytearray)):
        return ('ok', request.func.name, bytes(v))  # echo: big requests give big replies
    return ('ok', getattr(getattr(request, 'func', None), 'name', '?'), repr(getattr(request, 'keyset', None)))


def reset_globals(tls, active, pgp, nonce):
    import dawgie.context as ctx
    import dawgie.pl.farm as farm
    import dawgie.pl.logger as logger
    import dawgie.security as sec

    for lst in (farm._busy, farm._cloud, farm._cluster, farm._workers):
        lst.clear()
    farm._time.clear()
    ctx.git_rev = REV
    ctx.fsm = FsmStub(active)
    ctx.db_host, ctx.db_port = HOST, PORT[DB]
    ctx.farm_port, ctx.log_port = PORT[FARM], PORT[LOG]
    ctx.db_lock = False
    logger._ROOT = None
    sec._certs.clear()
    sec._system.clear()
    sec._myself.clear()
    if tls:
        sec._myself.update({'file': 'none', 'name': 'sim', 'private': object(), 'public': []})
    sec._PGP = pgp
    sec.random = RandomShim(nonce)
    sec.socket = _SOCKSHIM
    sec.connect = _INST['connect']
    boot.LOGS.records.clear()
    logging.raiseExceptions = False  # SocketHandler.handleError would print to stderr
    CUR[0] = None


# --------------------------------------------------------------------------
# simulated client socket for the real client code
# --------------------------------------------------------------------------


class HoldNet(core.NetCfg):
    """NetCfg whose chunking / short reads can be held off for a moment (steering around
    the known defect of security._recv; never used for anything else)"""

    def __init__(self, **kw):
        chunk = kw.pop('chunk', (0, 1))
        short_read = kw.pop('short_read', (0, 1))
        super().__init__(**kw)
        self._chunk, self._short = chunk, short_read
        self.hold_chunk = 0
        self.hold_short = 0

    @property
    def chunk(self):
        return (0, 1) if self.hold_chunk else self._chunk

    @chunk.setter
    def chunk(self, v):
        self._chunk = v

    @property
    def short_read(self):
        return (0, 1) if self.hold_short else self._short

    @short_read.setter
    def short_read(self, v):
        self._short = v


class WireSocket(core.SimSocket):
    """socket.socket() of the real client code: connects later, splits what it sends"""

    def __init__(self):  # noqa: super().__init__ connects at once; here connect() does
        w = WORLD[0]
        self.sim = w.sim
        self.buf = b''
        self.eof = False
        self.was_reset = False
        self.closed = False
        self.conn = None
        self.rec = None
        self.hold_reads = bool(w.cfg['steer_client_hs'])
        self.sent = []
        self.reads = []
        self.flow = getattr(core.current_thread(), 'flow', None)

    def connect(self, address):
        self._yield('connect')
        self.conn = self.sim.connect(address[1], self, host='10.0.1.1')
        self.rec = WORLD[0].on_connect(self.conn, sock=self)

    def sendall(self, data):
        self._yield('send')
        if self.was_reset:
            raise ConnectionResetError('sim: reset')
        data = bytes(data)
        self.sent.append(data)
        w = WORLD[0]
        for piece in w.pieces(data, 'c2s'):
            self.conn.client_send(piece)

    send = sendall

    def recv(self, n):
        net = self.sim.net
        if self.hold_reads and hasattr(net, 'hold_short'):
            net.hold_short += 1
            try:
                out = super().recv(n)
            finally:
                net.hold_short -= 1
        else:
            out = super().recv(n)
        if len(self.reads) < 8:
            self.reads.append((n, len(out)))
            if self.rec is not None and self.rec.legacy:
                WORLD[0].op(f'conn {self.conn.cid}: client recv({n}) -> {len(out)}B')
        return out


_SOCKSHIM = types.ModuleType('socket')
_SOCKSHIM.socket = WireSocket
_SOCKSHIM.SHUT_RDWR = 2
_SOCKSHIM.error = OSError
_SOCKSHIM.timeout = TimeoutError


def _tls_connect(address):
    s = WireSocket()
    s.hold_reads = False
    s.connect(address)
    return s


def _steered_connect(address):
    s = _INST['connect'](address)
    s.hold_reads = False
    return s


# --------------------------------------------------------------------------
# handshake scenarios
# --------------------------------------------------------------------------

SIGS = ('valid', 'tampered', 'foreign')
Scenario = collections.namedtuple('Scenario', 'sig_id pre1 len1 sig_echo pre2 len2 echo')
VALID = Scenario('valid', 4, 0, 'valid', 4, 0, 'echo')
WRONG_PREFIX = (0, 3, 5, 1 << 31)


def sc_ok_id(sc):
    return sc.sig_id == 'valid' and sc.pre1 == 4 and sc.len1 == 0


def sc_ok(sc):
    return sc_ok_id(sc) and sc.sig_echo == 'valid' and sc.pre2 == 4 and sc.len2 == 0 and sc.echo == 'echo'


def sc_sig(sc):
    bad = []
    if sc.sig_id != 'valid':
        bad.append('id_' + sc.sig_id)
    if sc.pre1 != 4:
        bad.append('prefix1')
    if sc.len1:
        bad.append('len1')
    if sc_ok_id(sc):
        if sc.sig_echo != 'valid':
            bad.append('echo_' + sc.sig_echo)
        if sc.pre2 != 4:
            bad.append('prefix2')
        if sc.len2:
            bad.append('len2')
        if sc.echo != 'echo':
            bad.append('wrong_echo')
    return '+'.join(bad) or 'valid'


def signed(kind, payload):
    if kind == 'valid':
        return FakePGP.make(b'a', payload)
    if kind == 'foreign':
        return FakePGP.make(b'z', payload)  # a well-formed signature of a key that is not in the ring
    good = FakePGP.make(b'a', payload)
    i = len(good) - 1 - (len(payload) // 2)  # a payload byte changed after signing
    return good[:i] + bytes([good[i] ^ 0x01]) + good[i + 1:]


def packet(pre, lenvar, sig):
    return struct.pack('>I', pre) + struct.pack('>I', max(0, len(sig) + lenvar)) + sig


def wrong_echo(challenge):
    return challenge[:-1] + (b'7' if challenge[-1:] != b'7' else b'8')


# --------------------------------------------------------------------------
# the world
# --------------------------------------------------------------------------


class Item:
    """one application message: the object, its frame, whether the server closes after it"""

    def __init__(self, obj, raw, closes, label):
        self.obj, self.raw, self.closes, self.label = obj, raw, closes, label
        self.frame = frame(raw)


class Link:
    """one server-side protocol object, driven directly"""

    def __init__(self, world, channel):
        import dawgie.security as sec

        self.world, self.channel = world, channel
        self.tape = Tape()
        sec.random.k = 0  # same nonce for the reference and every subject of a run
        self.proto = world.factory(channel).buildProtocol(core.Address('10.0.1.1', 40001))
        self.proto._wire_tape = self.tape
        self.tr = FakeTransport(self.tape)
        self.proto.makeConnection(self.tr)
        world.feeds += 1

    def feed(self, chunk):
        t = self.tape
        if self.tr.disconnecting or t.dead:
            t.dropped += len(chunk)
            return
        CUR[0] = t
        try:
            self.proto.dataReceived(chunk)
        except Exception as e:  # noqa: Twisted logs it and drops the connection
            t.append(('exception', type(e).__name__))
            t.dead = True
        finally:
            CUR[0] = None

    def feed_all(self, stream, cuts):
        last = 0
        for c in cuts:
            self.feed(stream[last:c])
            last = c
        self.feed(stream[last:])
        return self

    def dispose(self):
        """the run server switches the garbage collector off: break the protocol <-> wrapper <-> transport cycles by hand"""
        self.proto.__dict__.clear()
        self.tr.__dict__.clear()
        self.proto = self.tr = None


class ConnRec:
    """one SimConn of a net/client run"""

    def __init__(self, conn, channel, legacy, tape):
        self.conn, self.channel, self.legacy, self.tape = conn, channel, legacy, tape
        self.inner = conn.proto
        self.sock = None
        self.script = None
        self.pushed = 0


class Guard:
    """stands between SimConn and the protocol: routes recorder events to the right tape
    and gives an exception escaping dataReceived Twisted's meaning (connection dropped)"""

    def __init__(self, inner, tape, conn):
        self.inner, self.tape, self.conn = inner, tape, conn

    def dataReceived(self, data):
        t = self.tape
        if t.dead:
            return
        CUR[0] = t
        try:
            self.inner.dataReceived(data)
        except Exception as e:  # noqa
            t.append(('exception', type(e).__name__))
            t.dead = True
            self.conn.sim.soon(f'drop:{self.conn.cid}', lambda: self.conn.reset('exception'))
        finally:
            CUR[0] = None

    def connectionLost(self, reason):
        CUR[0] = self.tape
        try:
            self.inner.connectionLost(reason)
        finally:
            CUR[0] = None

    def makeConnection(self, tr):
        self.inner.makeConnection(tr)


class WireWorld:
    def __init__(self, ch, cfg):
        self.ch = ch
        self.cfg = dict(DEFAULT_CFG)
        self.cfg.update(cfg or {})
        self.sim = boot.setup()
        self.violations = []
        self.vcount = collections.Counter()
        self.probes = collections.Counter()
        self.faults = collections.Counter()
        self.ops = []
        self.feeds = 0
        self.nontrivial = False
        self.dir = None
        self.conns = []
        self._fac = {}
        self.summary = hashlib.sha256()
        self.acc_steps, self.acc_vtime = 0, 0.0
        self.acc_kinds, self.acc_counts = collections.Counter(), collections.Counter()
        self.flows = []

    # -- reporting ---------------------------------------------------------
    def violate(self, rule, sig, msg, prop='C14'):
        key = (prop, rule, sig)
        self.vcount[key] += 1
        if self.vcount[key] > 1:
            return
        self.violations.append(dict(property=prop, rule=rule, signature=sig, message=msg,
                                    step=self.acc_steps + self.sim.steps + self.feeds, t=round(self.sim.now, 3)))
        self.op(f'VIOLATION {prop}/{rule} {sig}: {msg}')

    def op(self, text):
        if len(self.ops) < 400:
            self.ops.append(f'[{self.acc_steps + self.sim.steps + self.feeds}@{self.sim.now:.2f}] {text}')

    def note(self, *parts):
        """fold harness-level outcomes into the event-log digest"""
        self.summary.update(repr(parts).encode())

    # -- set-up ------------------------------------------------------------
    def setup(self, net=None):
        ch, cfg = self.ch, self.cfg
        install()
        WORLD[0] = self
        self.sim.fresh(ch, net=net)
        chans = cfg['channels']
        self.channel = chans[ch.choose('gen.channel', len(chans))]
        self.tls = bool(ch.choose('gen.legacy', 2) == 0) if cfg['tls'] == 'both' else bool(cfg['tls'])
        if cfg['mode'] in ('hs', 'gpg'):
            self.tls = False
        if cfg['mode'] == 'gpg':
            self.cfg['prechunk'] = False  # signature lengths vary from run to run: no chooser call may depend on them
        self.legacy = not self.tls
        self.active = ch.choose('gen.inactive', 4) != 1
        nonce = 500 + ch.choose('gen.nonce', 500) if self.legacy else 500
        boot.set_epoch(boot.EPOCH)
        boot._state['skew'] = 0.0
        self.pgp = FakePGP()
        reset_globals(self.tls, self.active, self.pgp, nonce)
        self._fac = {}
        self.op(f'mode={cfg["mode"]} channel={self.channel} {"TLS (no handshake)" if self.tls else "legacy handshake"} '
                f'pipeline_active={self.active}')

    def factory(self, channel):
        if channel not in self._fac:
            import dawgie.pl.farm as farm
            import dawgie.db.shelve.comms as comms
            import dawgie.pl.logger as logger

            if channel == FARM:
                f = farm.Foreman()
            elif channel == DB:
                f = comms.DBSerializer()
            else:
                # not LogSinkFactory(path): its __init__ opens a rotating log file (and with path=None it raises
                # AttributeError: logging.handlers.StreamHandler does not exist); buildProtocol only needs __actual
                f = logger.LogSinkFactory.__new__(logger.LogSinkFactory)
                f._LogSinkFactory__actual = Recorder()
                f.numPorts = 0
            self._fac[channel] = f
        return self._fac[channel]

    # -- generation ---------------------------------------------------------
    SIZES = (0, 1, 3, 4, 5, 8, 60, 255, 256, 1000, 4093, 16384, 65535, 65536, 70000)

    def payload(self, cap, kind='gen.paysize'):
        sizes = [s for s in self.SIZES if s <= cap] or [0]
        n = sizes[self.ch.choose(kind, len(sizes))]
        style = self.ch.choose('gen.paystyle', 4) if n else 0
        if style == 0:
            b = bytes(n)
        elif style == 1:
            b = (b'\x00\x00\x00\x04' * (n // 4 + 1))[:n]  # looks like length prefixes
        elif style == 2:
            b = (bytes(range(256)) * (n // 256 + 1))[:n]
        else:
            b = (b'\x80\x05\x95.' * (n // 4 + 1))[:n]  # looks like pickle headers
        if n >= 65536:
            self.probes['payload_ge_64k'] += 1
        return b

    def edge_payload(self, cap, measure):
        """a payload sized so that `measure(payload)` (the pickled length of the message or of its reply) lands on or
        next to a multiple of 64 KiB: slicing, buffering and length arithmetic break at exactly those sizes"""
        ch = self.ch
        if cap < 65536 or not ch.flip('gen.edge', 1, 3):
            return None
        target = 65536 * (1 + ch.choose('gen.edge_k', 2 if cap >= 131072 + 8 else 1)) + ch.choose('gen.edge_d', 11) - 5
        over = measure(bytes(target)) - target
        pay = bytes(range(256)) * ((target - over) // 256 + 1)
        pay = pay[:target - over]
        if measure(pay) != target:
            return None
        self.probes['frame_on_64k_edge'] += 1
        return pay

    def gen_item(self, channel, cap, last, tiny=False):
        """one message of the channel's real types; closing ones only where allowed"""
        import dawgie.pl.message as M
        from dawgie.db.shelve.comms import COMMAND, KEYSET
        from dawgie.db.shelve.enums import Func, Method, Table

        ch = self.ch
        may_close = last or self.cfg['after_close']
        if channel == LOG:
            k = ch.choose('gen.logkind', 3)
            if tiny:
                d = {'msg': 'xyz'[:k + 1]} if k else {'m': 1}
                return Item(d, pickle.dumps(d, 1), False, f'log{d}')
            text = self.payload(cap).decode('latin-1')
            rec = self.log_record(k, text)
            raw = logging.handlers.SocketHandler.makePickle(None, rec)[4:]
            return Item(rec, raw, False, f'log(level={rec.levelno},{len(text)}B)')
        if channel == FARM:
            kinds = ['response', 'register'] + (['status', 'stale_register', 'bogus', 'stale_status'] if may_close else [])
            k = kinds[ch.choose('gen.farmkind', len(kinds))]
            if k == 'register':
                m = M.make(typ=M.Type.register, rev=REV, inc=ch.choose('gen.inc', 4))
            elif k == 'response':
                suc = (True, False, None)[ch.choose('gen.suc', 3)]
                m = M.make(typ=M.Type.response, inc='T%d' % ch.choose('gen.tn', 3), jid='p.a', rid=ch.choose('gen.rid', 5),
                           suc=suc, tim={'a': 1.5} if not tiny else None,
                           val=None if tiny else [('p.a.s.v', True)], ctxt=None if tiny else self.payload(cap))
            elif k == 'status':
                m = M.make(typ=M.Type.status, rev=REV)
            elif k == 'stale_status':
                m = M.make(typ=M.Type.status, rev='old')
            elif k == 'stale_register':
                m = M.make(typ=M.Type.register, rev='old', inc=1)
            else:
                m = M.make(typ=(M.Type.task, M.Type.wait, M.Type.cloud)[ch.choose('gen.bogus', 3)])
            closes = k in ('status', 'stale_status', 'stale_register', 'bogus')
            return Item(m, M.dumps(m), closes, k)
        kinds = ['acquire', 'dbcopy'] + (['get', 'set', 'upd', 'release', 'table', 'append'] if may_close else [])
        k = kinds[ch.choose('gen.dbkind', len(kinds))]
        if k == 'acquire':
            c = COMMAND(Func.acquire, None, None, 'w%d' % ch.choose('gen.wn', 3))
        elif k == 'dbcopy':
            c = COMMAND(Func.dbcopy, None, None, [Method.connector, '/x'])
        elif k == 'get':
            c = COMMAND(Func.get, (1, 2, 3, 4, 5, ch.choose('gen.key', 9)), Table.prime, None)
        elif k == 'set':
            c = COMMAND(Func.set, (1, 2, 3, 4, 5, 6), Table.prime, b'' if tiny else self.payload(cap))
        elif k == 'upd':
            c = COMMAND(Func.upd, KEYSET('n', 'p', '1.0.0'), Table.alg, None)
        elif k == 'release':
            c = COMMAND(Func.release, None, None, None)
        elif k == 'table':
            c = COMMAND(Func.table, None, Table.target, None)
        else:
            c = COMMAND(Func.append, None, Table.target, 'T')
        closes = k not in ('acquire', 'dbcopy')
        return Item(c, pickle.dumps(c, pickle.HIGHEST_PROTOCOL), closes, k)

    def log_record(self, k, text):
        rec = logging.makeLogRecord({'name': ('dawgie.a', 'b', 'dawgie.pl.worker')[k], 'levelno': (20, 30, 40)[k],
                                     'levelname': ('INFO', 'WARNING', 'ERROR')[k], 'msg': 'job %s: %s', 'args': ('p.a', text)})
        # everything the real clock / pid / thread would put into the pickle
        rec.created, rec.msecs, rec.relativeCreated = 1704067200.0, 0.0, 0.0
        rec.thread, rec.threadName, rec.process, rec.processName, rec.taskName = 1, 'MainThread', 4242, 'MainProcess', None
        return rec

    def gen_seq(self, channel, n, cap, tiny=False):
        items = [self.gen_item(channel, cap, last=(i == n - 1), tiny=tiny) for i in range(n)]
        for it in items[:-1]:
            if it.closes:
                self.probes['message_after_closing_message'] += 1
        if any(it.closes for it in items):
            self.probes['closing_message'] += 1
        return items

    # -- handshake helpers --------------------------------------------------
    def challenge(self, channel, id_payload):
        """what the server answers to a valid identification right now"""
        L = Link(self, channel)
        L.feed(packet(4, 0, signed('valid', id_payload)))
        w = [e[1] for e in L.tape if e[0] == 'write']
        if len(w) != 1 or len(w[0]) < 5:
            raise core.HarnessError(f'no challenge after a valid identification: {L.tape}')
        return w[0][4:]

    def hs_packets(self, sc, id_payload, challenge):
        p1 = packet(sc.pre1, sc.len1, signed(sc.sig_id, id_payload))
        echo = challenge if sc.echo == 'echo' else wrong_echo(challenge)
        p2 = packet(sc.pre2, sc.len2, signed(sc.sig_echo, echo))
        return p1, p2

    # -- oracles -----------------------------------------------------------
    def gate(self, tape, sc, where, channel):
        """second sentence of the statement, on one connection's tape.
        Demanded: (a) no application message is processed before the server's comparison of the echoed
        challenge came out true (event ('echo', True), emitted when _p5 assigns response.valid after a
        valid signature check); (b) with any invalid input - signature of the identification or of the
        echo tampered or foreign, either leading length field not 4, second length field off by one,
        echo different from the challenge - no application message is ever processed and the
        connection is closed.
        Leniencies: (1) only *messages* (objects reaching _process / do / the log handler) count as
        processed - bytes parked in a buffer do not; (2) 'closes the connection' = at least one
        loseConnection call (or an exception escaping dataReceived, which makes Twisted drop the
        connection); how many calls is not prescribed here (the comparison with whole-packet delivery
        catches a different number); (3) the echo is compared the way the code does, modulo
        surrounding white space (gpg appends a newline to clear-signed text) - only echoes that differ
        in a non-blank character are generated as "wrong"; (4) every generated stream is complete, so
        "handshake still waiting for bytes" never has to be judged; (5) after loseConnection the
        transport delivers nothing more (Twisted), so "bytes that arrive later" are dropped by the
        transport model, not by the code under test."""
        kinds = [e[0] for e in tape]
        first_msg = kinds.index('msg') if 'msg' in kinds else None
        verified = None
        for i, e in enumerate(tape):
            if e == ('echo', True):
                verified = i
                break
        if first_msg is not None and not sc_ok(sc):
            self.violate('failed_handshake_delivered', sc_sig(sc),
                         f'{channel}: handshake input [{sc_sig(sc)}] {where}: {kinds.count("msg")} application message(s) were '
                         f'processed although the handshake must fail; events {self.brief(tape)}')
        elif first_msg is not None and (verified is None or first_msg < verified):
            self.violate('processed_before_verified', channel,
                         f'{channel}: valid handshake {where}: an application message was processed before the echoed challenge '
                         f'was verified; events {self.brief(tape)}')
        if not sc_ok(sc) and first_msg is None and 'lose' not in kinds and 'exception' not in kinds:
            self.violate('failed_handshake_not_closed', sc_sig(sc),
                         f'{channel}: handshake input [{sc_sig(sc)}] {where}: the connection was not closed; events {self.brief(tape)}')

    @staticmethod
    def brief(tape):
        out = []
        for e in tape:
            if e[0] in ('write', 'push'):
                out.append(f'{e[0]}({len(e[1])}B)')
            elif e[0] == 'msg':
                out.append(f'msg:{e[1][0]}')
            else:
                out.append(':'.join(str(x) for x in e))
        return ' '.join(out[:24])

    def compare(self, ref, sub, channel, where, items=None, after_close=False):
        """first sentence: the subject's view (see view()) equals that of whole-message delivery of the same bytes
        to a fresh instance: same objects reaching _process / do / the log handler in the same order, same bytes
        written back at the same places between them, same loseConnection calls, no exception.
        Leniencies: (1) the boundaries between consecutive transport.write calls are not compared (a byte stream has
        none); (2) what the harness itself pushes through Hand.notify / Hand.do is left out; (3) in the SimConn modes
        the text of the server's challenge is masked (its time stamp is the virtual time of the delivery, which differs
        between the run and the reference computed afterwards) - its position and the rest are compared; (4) whole-
        message delivery follows Twisted: after the message that made the server call loseConnection nothing more is
        delivered; sequences with messages behind such a message are generated only where cfg after_close is set."""
        if ref == sub:
            return True
        mode = 'legacy' if self.legacy else 'tls'
        rm, sm = msgs_of(ref), msgs_of(sub)
        if after_close and len(sm) > len(rm) and sm[:len(rm)] == rm and ('lose',) in ref:
            if self.vcount[('C14', 'processed_after_close', channel)]:
                self.vcount[('C14', 'processed_after_close', channel)] += 1
                return False
            self.violate('processed_after_close', channel,
                         f'{channel}/{mode} {where}: whole-message delivery processes {len(rm)} message(s) and then closes the '
                         f'connection (Twisted stops reading), the same bytes coalesced process {len(sm)}: reference {fmt(ref)} '
                         f'subject {fmt(sub)}')
            return False
        if rm != sm:
            what = 'msgs'
        elif [e for e in ref if e[0] == 'lose'] != [e for e in sub if e[0] == 'lose']:
            what = 'close'
        elif any(e[0] == 'exception' for e in sub):
            what = 'exception'
        else:
            what = 'writes'
        if self.vcount[('C14', 'framing_differs', f'{channel}:{mode}:{what}')]:
            self.vcount[('C14', 'framing_differs', f'{channel}:{mode}:{what}')] += 1
            return False
        self.violate('framing_differs', f'{channel}:{mode}:{what}',
                     f'{channel}/{mode} {where}: reference (whole messages) {fmt(ref)} != subject {fmt(sub)}')
        return False

    def check_whole(self, ref, items, channel, sc=None):
        """whole-message delivery itself yields the messages that were sent (the base case sentence 1 takes for
        granted; without it a bug that breaks both deliveries alike would go unseen).  Objects are compared through
        the pickle of what pickle.loads makes of the sent bytes.  Twisted semantics: nothing after the message that
        made the server close; nothing at all behind a handshake that must fail."""
        want = []
        for it in items:
            want.append(canon(pickle.loads(it.raw)) if channel != LOG else canon_record(logging.makeLogRecord(pickle.loads(it.raw))))
            if it.closes:
                break
        got = msgs_of(ref)
        if sc is not None and not sc_ok(sc):
            want = []
        ok = got == want
        if not ok:
            self.violate('whole_delivery_wrong', channel,
                         f'{channel}: {len(want)} message(s) sent one frame per chunk, the server processed {fmt(ref)}; sent '
                         f'{[it.label for it in items]}')
        return ok

    # ======================================================================
    # direct-drive modes
    # ======================================================================
    def positions_kind(self, bounds, n):
        """classify every cut position 1..n-1: 'edge' (between frames), 'head' (inside a length prefix), 'body'"""
        kind = {}
        starts = [0] + bounds[:-1]
        for c in range(1, n):
            kind[c] = 'body'
        for s in starts:
            for c in range(s + 1, min(s + 4, n)):
                kind[c] = 'head'
        for b in bounds[:-1]:
            if 0 < b < n:
                kind[b] = 'edge'
        return kind

    def count_cuts(self, cuts, kind, bounds):
        for c in cuts:
            self.faults['frag.cut_' + kind.get(c, 'body')] += 1
        edges = set(bounds[:-1])
        last = 0
        for c in list(cuts) + [bounds[-1] if bounds else 0]:
            if any(last < e < c for e in edges):
                self.faults['frag.coalesced_frames'] += 1
                break
            last = c

    def run_enum(self):
        """every 2-chunk and 3-chunk delivery of a short stream"""
        ch, cfg = self.ch, self.cfg
        channel = self.channel
        tiny = True
        nmax = {LOG: 3, FARM: 2, DB: 2}[channel]
        n = 1 + ch.choose('gen.nmsgs', nmax)
        items = self.gen_seq(channel, n, cap=8, tiny=tiny)
        stream = b''.join(it.frame for it in items)
        self.op(f'messages: {[f"{it.label}/{len(it.frame)}B" for it in items]} stream={len(stream)}B')
        pre = []
        if self.legacy:
            idp = b'i'
            chal = self.challenge(channel, idp)
            pre = list(self.hs_packets(VALID, idp, chal))
        # reference: one frame per chunk to a fresh instance
        R = Link(self, channel)
        for p in pre:
            R.feed(p)
        for it in items:
            R.feed(it.frame)
        ref = view(R.tape)
        self.check_whole(ref, items, channel)
        if self.legacy:
            self.gate(R.tape, VALID, 'whole packets', channel)
        bounds = list(itertools.accumulate(len(it.frame) for it in items))
        N = len(stream)
        kind = self.positions_kind(bounds, N)
        if N <= SHORT:
            singles = list(range(1, N))
            pairs = list(itertools.combinations(range(1, N), 2))
            self.probes['short_stream_all_pairs'] += 1
        else:
            singles = list(range(1, N))
            W = min(cfg['window'], N - 1)
            lo = 1 + ch.choose('gen.window', N - W)
            special = sorted({c for b in [0] + bounds for c in (b - 1, b, b + 1, b + 3, b + 4, b + 5) if 0 < c < N})
            pool = sorted(set(range(lo, lo + W)) | set(special))
            pairs = list(itertools.combinations(pool, 2))
            self.probes['long_stream_window_pairs'] += 1
            self.op(f'stream longer than {SHORT}B: all {N - 1} single cuts, pairs among window {lo}..{lo + W - 1} and frame edges ({len(pool)} positions)')
        glue_modes = (False, True) if self.legacy else (False,)
        nfeed = 0
        for glue in glue_modes:
            # glue: the first application chunk arrives in the same chunk as the final handshake packet
            for cuts in itertools.chain([()], ((c,) for c in singles), pairs):
                L = Link(self, channel)
                if self.legacy:
                    L.feed(pre[0])
                    if glue:
                        first = cuts[0] if cuts else N
                        L.feed(pre[1] + stream[:first])
                        L.feed_all(stream[first:], [c - first for c in cuts[1:]]) if first < N else None
                    else:
                        L.feed(pre[1])
                        L.feed_all(stream, cuts)
                else:
                    L.feed_all(stream, cuts)
                nfeed += 1
                sub = view(L.tape)
                L.dispose()
                self.count_cuts(cuts, kind, bounds)
                if sub != ref:
                    self.compare(ref, sub, channel, f'cuts at {list(cuts)} of {N}B{" glued to the final handshake packet" if glue else ""}',
                                 items, cfg['after_close'])
                if self.legacy:
                    self.gate(L.tape, VALID, f'cuts {list(cuts)}', channel)
                if self.violations and len(self.violations) >= 4:
                    break
            if glue:
                self.probes['handshake_tail_coalesced'] += 1
        self.note('enum', channel, self.legacy, N, nfeed, ref)
        self.nontrivial = nfeed > 1 and len(msgs_of(ref)) >= 1
        self.op(f'{nfeed} deliveries compared with the whole-message reference {fmt(ref)}')

    def run_hs(self):
        """legacy handshake: every combination of inputs, every single cut; every pair for one combination"""
        ch, cfg = self.ch, self.cfg
        channel = self.channel
        n = ch.choose('gen.ntail', 3)
        items = self.gen_seq(channel, n, cap=8, tiny=True) if n else []
        tail = b''.join(it.frame for it in items)
        idp = (b'i', b' machine: 10.0.1.1\nusername: sim\n')[ch.choose('gen.idp', 2)]
        chal = self.challenge(channel, idp)
        combos = [Scenario(a, b, 0, c, d, 0, e) for a in SIGS for b in (4, None) for c in SIGS for d in (4, None) for e in ('echo', 'wrong')]
        wp = WRONG_PREFIX[ch.choose('gen.wrongprefix', len(WRONG_PREFIX))]
        combos = [sc._replace(pre1=wp if sc.pre1 is None else 4, pre2=wp if sc.pre2 is None else 4) for sc in combos]
        # the chooser-chosen combination gets every pair of cuts (and may carry a wrong second length field)
        i = ch.choose('gen.combo', len(combos) + len(combos) // 2)
        star = combos[i] if i < len(combos) else VALID  # combos[0] is the all-valid one; it gets a third of the runs
        lv = ch.choose('gen.lenvar', 5)
        if lv == 1:
            star = star._replace(len1=-1)
        elif lv == 2:
            star = star._replace(len1=1)
        elif lv == 3:
            star = star._replace(len2=-1)
        elif lv == 4 and tail:
            star = star._replace(len2=1)
        # every combination is delivered whole; a rotating subset gets every single cut as well
        k = cfg['hs_combos']
        off = ch.choose('gen.combo_offset', len(combos))
        single_set = {combos[(off + i * 7) % len(combos)] for i in range(k)} | {VALID, star}
        self.op(f'tail: {[it.label for it in items]} ({len(tail)}B); id payload {len(idp)}B; challenge {chal!r}; wrong prefix value {wp}; '
                f'all-pairs combination [{sc_sig(star)}]')
        nfeed = 0
        for sc in combos + ([star] if star not in combos else []):
            p1, p2 = self.hs_packets(sc, idp, chal)
            stream = p1 + p2 + tail
            N = len(stream)
            R = Link(self, channel)
            R.feed(p1)
            R.feed(p2)
            for it in items:
                R.feed(it.frame)
            ref = view(R.tape)
            self.check_whole(ref, items, channel, sc)
            self.gate(R.tape, sc, 'whole packets', channel)
            if sc_ok(sc):
                self.probes['handshake_valid'] += 1
            else:
                self.faults['hs.' + sc_sig(sc).split('+')[0]] += 1
            cutsets = [()]
            if sc in single_set:
                cutsets += [(c,) for c in range(1, N)]
            if sc == star:
                if N <= cfg['pairs_full']:
                    cutsets += list(itertools.combinations(range(1, N), 2))
                    self.probes['handshake_all_pairs'] += 1
                else:
                    W = min(cfg['window'] * 2, N - 1)
                    lo = 1 + ch.choose('gen.window', N - W)
                    edges = {c for b in (len(p1), len(p1) + len(p2)) for c in (b - 1, b, b + 1)}
                    pool = sorted((set(range(lo, lo + W)) | edges) & set(range(1, N)))
                    cutsets += list(itertools.combinations(pool, 2))
                    self.probes['handshake_window_pairs'] += 1
            end_hs = len(p1) + len(p2)
            for cuts in cutsets:
                L = Link(self, channel).feed_all(stream, cuts)
                nfeed += 1
                sub = view(L.tape)
                L.dispose()
                where = f'stream {N}B (id packet {len(p1)}B, echo packet {len(p2)}B, tail {len(tail)}B) cut at {list(cuts)}'
                if sub != ref:
                    self.compare(ref, sub, channel, f'handshake [{sc_sig(sc)}] ' + where, items)
                self.gate(L.tape, sc, where, channel)
                if tail:
                    lastc = max([c for c in cuts if c <= end_hs], default=0)
                    nxt = min([c for c in cuts if c > end_hs], default=N)
                    if lastc < end_hs < nxt or not cuts:
                        if sc_ok(sc):
                            self.probes['handshake_tail_coalesced'] += 1
                        else:
                            self.probes['failed_handshake_with_buffered_tail'] += 1
                if len(self.violations) >= 4:
                    break
            self.note('hs', sc_sig(sc), ref)
            if len(self.violations) >= 4:
                break
        self.nontrivial = nfeed > len(combos)
        self.note('hs-feeds', nfeed)
        self.op(f'{len(combos)} input combinations, {nfeed} deliveries')

    def chunkify(self, n, bounds, kind='frag'):
        """chooser-chosen cut positions for a stream of n bytes (0 = whole)"""
        ch = self.ch
        if n <= 1:
            return []
        style = ch.choose(kind + '.style', 6)
        cuts = set()
        if style == 0:
            return []
        if style == 1:
            for _ in range(1 + ch.choose(kind + '.ncuts', 4)):
                cuts.add(1 + ch.choose(kind + '.cut', n - 1))
        elif style == 2:
            # coalescing across message boundaries: chunks that start and end inside frames
            for b in bounds:
                d = ch.choose(kind + '.edge', 7)
                c = b + (-5, -1, 1, 2, 3, 4, 9)[d]
                if 0 < c < n:
                    cuts.add(c)
            self.faults['frag.coalescing_style'] += 1
        elif style == 3:
            lo = 1 + ch.choose(kind + '.runat', n - 1)
            ln = 2 + ch.choose(kind + '.runlen', 22)
            cuts.update(range(lo, min(n, lo + ln)))
            if ch.choose(kind + '.runedge', 2) and bounds:
                b = bounds[ch.choose(kind + '.runb', len(bounds))]
                cuts.update(c for c in range(b - 3, b + 6) if 0 < c < n)
            self.faults['frag.one_byte_run'] += 1
        elif style == 4:
            size = (1, 2, 3, 5, 7, 64, 1000, 1460, 8192, 65536)[ch.choose(kind + '.size', 10)]
            start = 0
            if n // size > 300:
                start = ch.choose(kind + '.sizeat', n - 300 * size)
            cuts.update(range(start + size, min(n, start + 300 * size), size))
            self.faults['frag.fixed_size'] += 1
            if size == 1:
                self.faults['frag.one_byte_run'] += 1
        else:
            for _ in range(1 + ch.choose(kind + '.ncuts', 3)):
                cuts.add(1 + ch.choose(kind + '.cut', n - 1))
            for b in bounds:
                if ch.choose(kind + '.atedge', 2) and 0 < b < n:
                    cuts.add(b)
        return sorted(c for c in cuts if 0 < c < n)

    def run_long(self):
        ch, cfg = self.ch, self.cfg
        channel = self.channel
        n = 1 + ch.choose('gen.nmsgs', 6)
        items = self.gen_seq(channel, n, cap=cfg['maxpay'])
        stream = b''.join(it.frame for it in items)
        N = len(stream)
        self.op(f'messages: {[f"{it.label}/{len(it.frame)}B" for it in items]} stream={N}B')
        pre, hs = [], b''
        if self.legacy:
            idp = b' machine: 10.0.1.1\ntemporal: 2024-01-01 00:00:00+00:00\nusername: sim\n'
            chal = self.challenge(channel, idp)
            pre = list(self.hs_packets(VALID, idp, chal))
            hs = b''.join(pre)
        R = Link(self, channel)
        for p in pre:
            R.feed(p)
        for it in items:
            R.feed(it.frame)
        ref = view(R.tape)
        self.check_whole(ref, items, channel)
        full = hs + stream
        bounds = list(itertools.accumulate([len(p) for p in pre] + [len(it.frame) for it in items]))
        kind = self.positions_kind(bounds, len(full))
        for i in range(cfg['chunkings']):
            cuts = self.chunkify(len(full), bounds)
            L = Link(self, channel).feed_all(full, cuts)
            sub = view(L.tape)
            L.dispose()
            self.count_cuts(cuts, kind, bounds)
            where = f'{len(cuts) + 1} chunks, cuts {cuts[:12]}{"..." if len(cuts) > 12 else ""} of {len(full)}B (frame ends {bounds})'
            self.op(f'chunking {i}: {where} -> {"same" if sub == ref else "DIFFERENT"}')
            if sub != ref:
                self.compare(ref, sub, channel, where, items, cfg['after_close'])
            if self.legacy:
                self.gate(L.tape, VALID, where, channel)
            if cuts:
                self.nontrivial = True
            self.note('long', i, len(cuts), sub == ref)
        self.note('long-ref', ref)
        self.nontrivial = self.nontrivial and len(msgs_of(ref)) >= 1

    # ======================================================================
    # SimConn modes
    # ======================================================================
    def pieces(self, data, direction):
        """how a sender's one write is cut before the network cuts it again"""
        if not self.cfg.get('prechunk', True) or len(data) <= 1:
            return [data]
        cuts = self.chunkify(len(data), [], kind='pre.' + direction)
        out, last = [], 0
        for c in cuts:
            out.append(data[last:c])
            last = c
        out.append(data[last:])
        if len(out) > 1:
            self.faults['frag.sender_split_' + direction] += 1
        return out

    def on_connect(self, conn, sock=None, script=None):
        channel = CHANNEL_OF_PORT[conn.port]
        tape = Tape()
        inner = conn.proto
        inner._wire_tape = tape
        rec = ConnRec(conn, channel, self.legacy, tape)
        rec.sock, rec.script = sock, script
        tr = conn.transport
        real_write, real_lose = tr.write, tr.loseConnection
        world, net = self, self.sim.net

        def write(data):
            data = bytes(data)
            tape.append(('push' if tape.pushing else 'write', data))
            if rec.legacy and data[4:15] == b'timestamp: ':
                world.op(f'conn {conn.cid}: server writes its challenge ({len(data)}B: 4B length + {len(data) - 4}B text)')
            if rec.legacy and data[4:15] == b'timestamp: ' and world.cfg['steer_client_hs'] and sock is not None:
                # steering around the known defect of security._recv: the challenge reaches the real client in one piece
                net.hold_chunk += 1
                try:
                    real_write(data)
                finally:
                    net.hold_chunk -= 1
                return
            for p in world.pieces(data, 's2c'):
                real_write(p)

        def lose(*_a, **_k):
            tape.append(('lose',))
            world.op(f'conn {conn.cid}: server calls loseConnection after {world.brief(tape[-4:-1])}')
            real_lose()

        tr.write, tr.loseConnection = write, lose
        conn.proto = Guard(inner, tape, conn)
        self.conns.append(rec)
        return rec

    def listen(self):
        for c in CHANNELS:
            self.sim.listen(PORT[c], self.factory(c))

    def netcfg(self, short=False):
        a, b, c, d, e, f = self.cfg['net']
        return HoldNet(chunk=(a, b), delay=(c, d), coalesce=(e, f), short_read=tuple(self.cfg['short_read']) if short else (0, 1),
                       delays=(0.0, 0.001, 0.05, 0.7))

    def reference_for(self, rec, frames, sc):
        """whole-message delivery of what this connection's client sent, to a fresh instance"""
        if rec.legacy:
            idp = rec.idp
            chal = self.challenge(rec.channel, idp)
        L = Link(self, rec.channel)
        if rec.legacy:
            p1, p2 = self.hs_packets(sc, idp, chal)
            L.feed(p1)
            L.feed(p2)
        for f in frames:
            L.feed(f)
        return L

    def run_net(self):
        """scripted clients through SimConn: the chooser decides chunk boundaries, delays, coalescing and delivery order"""
        ch, cfg = self.ch, self.cfg
        self.listen()
        nconn = 1 + ch.choose('gen.nconn', 3)
        scripts = []
        for i in range(nconn):
            channel = self.channel if i == 0 else cfg['channels'][ch.choose('gen.channel2', len(cfg['channels']))]
            n = 1 + ch.choose('gen.nmsgs', 5)
            items = self.gen_seq(channel, n, cap=cfg['maxpay'])
            sc = VALID
            if self.legacy and cfg.get('hs_faults', True) and ch.choose('gen.hsfault', 4) == 1:
                sc = Scenario(SIGS[ch.choose('gen.s1', 3)], (4, 5)[ch.choose('gen.p1', 2)], 0, SIGS[ch.choose('gen.s2', 3)],
                              (4, 0)[ch.choose('gen.p2', 2)], 0, ('echo', 'wrong')[ch.choose('gen.e', 2)])
            s = ScriptClient(self, channel, items, sc, i)
            scripts.append(s)
            self.op(f'conn {i}: {channel} handshake [{sc_sig(sc) if self.legacy else "none (TLS)"}] messages '
                    f'{[f"{it.label}/{len(it.frame)}B" for it in items]}')
        for s in scripts:
            s.start()
        r = self.sim.run(max_steps=cfg['max_steps'])
        if r != 'quiescent':
            self.probes['budget_' + r] += 1
            self.op(f'run ended by budget: {r}')
            return
        for s in scripts:
            rec = s.rec
            ref = self.reference_for(rec, [it.frame for it in s.items], s.sc)
            rv, sv = view(ref.tape, True), view(rec.tape, True)
            self.op(f'conn {s.idx}: server saw {fmt(sv)}')
            if not rec.legacy or sc_ok(s.sc):
                self.check_whole(rv, s.items, rec.channel)
            if rec.legacy:
                self.gate(rec.tape, s.sc, 'through SimConn', rec.channel)
                self.gate(ref.tape, s.sc, 'whole packets', rec.channel)
                if sc_ok(s.sc):
                    self.probes['handshake_valid'] += 1
                else:
                    self.faults['hs.' + sc_sig(s.sc).split('+')[0]] += 1
                if s.glued:
                    self.probes['handshake_tail_coalesced' if sc_ok(s.sc) else 'failed_handshake_with_buffered_tail'] += 1
            if rv != sv:
                self.compare(rv, sv, rec.channel, f'conn {s.idx} through SimConn ({s.nsplit} sender pieces)', s.items, cfg['after_close'])
            # what the client got back is what the server wrote, byte for byte
            wrote = b''.join(rec.conn.transport.written)
            if s.received != wrote and not rec.tape.dead:
                raise core.HarnessError(f'SimConn lost bytes: client received {len(s.received)}B, server wrote {len(wrote)}B')
            self.note('net', s.idx, sv)
        c = self.sim.counts
        self.nontrivial = (c['net.chunked'] + c['net.coalesced'] + sum(s.nsplit > 1 for s in scripts)) > 0 and any(
            msgs_of(view(s.rec.tape)) for s in scripts)

    # ----------------------------------------------------------------------
    def run_client(self):
        """the real client code in controlled threads"""
        ch, cfg = self.ch, self.cfg
        import dawgie.security as sec

        self.listen()
        sec.connect = _tls_connect if self.tls else (_steered_connect if cfg['steer_client_hs'] else _INST['connect'])
        nflows = 1 + ch.choose('gen.nflows', cfg['flows'])
        kinds = cfg.get('flow_kinds') or ['worker', 'db', 'log', 'status', 'lock']
        self.flows = []
        for i in range(nflows):
            if i == 0 and not cfg.get('flow_kinds'):
                k = {FARM: 'worker', DB: 'db', LOG: 'log'}[self.channel]
            else:
                k = kinds[ch.choose('gen.flow', len(kinds))]
            fl = Flow(self, k, i)
            self.flows.append(fl)
            self.op(f'flow {i}: {fl.describe()}')
        self.sim.actors.append(Pusher(self))
        for fl in self.flows:
            fl.thread = self.sim.spawn(f'flow{fl.idx}:{fl.kind}', fl.body)
            fl.thread.flow = fl
        r = self.sim.run(max_steps=cfg['max_steps'])
        if r != 'quiescent':
            self.probes['budget_' + r] += 1
        for fl in self.flows:
            fl.judge()
        self.judge_conns()
        c = self.sim.counts
        self.nontrivial = (c['net.chunked'] + c['net.coalesced'] + c['net.short_read']) > 0 and all(fl.stage == 'done' for fl in self.flows)

    def judge_conns(self):
        """server side of every connection a real client opened: the same objects as whole-message delivery of the
        client's application bytes"""
        for i, rec in enumerate(self.conns):
            sent = b''.join(rec.sock.sent) if rec.sock is not None else b''
            app = sent
            hs_ok = True
            if rec.legacy:
                pk, rest = ref_parse_hs(sent)
                if pk is None:
                    hs_ok = False
                    app = b''
                else:
                    app = rest
                    rec.idp = (FakePGP.parse(pk[0]) or (b'', b'', b'i'))[2]
            frames, _junk = ref_parse(app)
            if rec.legacy:
                self.gate(rec.tape, VALID, f'real client, conn {i}', rec.channel)
                done = ('echo', True) in rec.tape
                if not done and rec.sock is not None:
                    # the client half of the handshake went wrong: struct.error on a short read of the length prefix, or
                    # the echo of a partial challenge was refused and everything after it fell into a closed connection
                    fl = rec.sock.flow
                    exc = getattr(fl, 'exc', None)
                    if ('echo', False) in rec.tape:
                        sig = 'partial_challenge_echoed'
                    elif isinstance(exc, struct.error) or (rec.sock.reads and rec.sock.reads[0][0] == 4 and rec.sock.reads[0][1] < 4):
                        sig = 'length_prefix_short_read'
                    else:
                        sig = 'other'
                    self.violate('client_handshake_fragmentation', sig,
                                 f'conn {i} ({rec.channel}, flow {getattr(fl, "kind", "?")}): a valid client running the real security.connect '
                                 f'did not get through the handshake when the server\'s challenge reached it in pieces; server side: '
                                 f'{self.brief(rec.tape)}; client sent {len(sent)}B; client: '
                                 f'{(getattr(fl, "where", "") or "no exception (it believes it is connected)").strip()[-200:]}')
                    continue
                self.probes['handshake_valid'] += 1
            if not hs_ok:
                continue
            rec.idp = getattr(rec, 'idp', b'i')
            ref = self.reference_for(rec, [frame(f) for f in frames], VALID)
            # replay the harness' pushes at the same places (after the same number of messages)
            rv, sv = view(ref.tape, True), view(rec.tape, True)
            if rv != sv:
                self.compare(rv, sv, rec.channel, f'conn {i} from the real client through SimConn', None, False)
            self.note('client-conn', i, sv)

    # ======================================================================
    def run_gpg(self):
        """FakePGP's verdicts against a real gnupg.GPG with a freshly generated key, through the real code path.
        trusted home = holds the key pair (signs for the client, verifies for the server); stranger home = empty key
        ring: a server that does not know the signer, which is what makes a signature 'foreign'."""
        import gnupg
        import dawgie.security as sec
        import dawgie.pl.message as M

        self.listen()
        sweep_stale_gpg_homes()
        d = f'/dev/shm/verif-wire-{os.getpid():07d}'
        shutil.rmtree(d, ignore_errors=True)
        self.dir = d
        import tempfile
        old_tempdir = tempfile.tempdir
        os.makedirs(d, mode=0o700, exist_ok=True)
        tempfile.tempdir = d  # dawgie.security makes its gpg homes with tempfile.mkdtemp() and never removes them
        try:
            try:
                homes = {}
                for who in ('trusted', 'stranger'):
                    h = os.path.join(d, who)
                    os.makedirs(h, mode=0o700)
                    homes[who] = gnupg.GPG(**{sec.gpgargname: h})
                real, stranger = homes['trusted'], homes['stranger']
                key = real.gen_key(real.gen_key_input(key_type='RSA', key_length=1024, name_real='sim', name_email='sim@sim',
                                                      passphrase='1234567890'))
                fp = getattr(key, 'fingerprint', None)
            except OSError as e:
                fp, key = None, e
            if not fp:
                self.probes['gpg_skipped'] += 1
                self.op(f'gpg key generation impossible here: {getattr(key, "status", key)!r}')
                return
            self.probes['gpg_keys_generated'] += 1
            payload = ' machine: 10.0.1.1\nusername: sim\n'
            s = real.sign(payload, passphrase='1234567890', clearsign=True).data
            if not s:
                self.probes['gpg_skipped'] += 1
                self.op('gpg could not sign')
                return
            table = {
                'valid': (bool(real.verify(s).valid), bool(FakePGP().verify(signed('valid', payload.encode())).valid)),
                'tampered': (bool(real.verify(s.replace(b'machine', b'mAchine')).valid),
                             bool(FakePGP().verify(signed('tampered', payload.encode())).valid)),
                'foreign': (bool(stranger.verify(s).valid), bool(FakePGP().verify(signed('foreign', payload.encode())).valid)),
            }
            for kind, (v, f) in table.items():
                if v != f:
                    self.violate('gpg_calibration_mismatch', kind, f'gpg says valid={v}, FakePGP says valid={f} for a {kind} signature')
            dr = real.decrypt(s).data
            df = FakePGP().decrypt(signed('valid', payload.encode())).data
            if dr.strip() != df.strip() or dr.strip() != payload.strip().encode():
                self.violate('gpg_calibration_mismatch', 'decrypt', f'gpg decrypt gives {dr!r}, FakePGP {df!r}')
            # text without final newline: gpg appends one (that is why _p5 compares stripped strings)
            s2 = real.sign(b'timestamp: x\nunique id: 0.5', passphrase='1234567890', clearsign=True).data
            d2 = real.decrypt(s2).data
            f2 = FakePGP().decrypt(signed('valid', b'timestamp: x\nunique id: 0.5')).data
            if d2 != f2:
                self.violate('gpg_calibration_mismatch', 'decrypt_newline', f'gpg decrypt gives {d2!r}, FakePGP {f2!r}')
            self.op(f'verdicts (gpg, fake): {table}')
            self.note('gpg-table', sorted(table.items()))
            # the real handshake code on both sides (security.connect/_send/_recv <-> TwistedWrapper around Hand) with
            # real gpg, then with the fake: same outcome.  valid always, one invalid kind per run.
            kinds = ['valid', ('tampered', 'foreign')[self.ch.choose('gen.calkind', 2)]]
            outcomes = {}
            for engine in ('gpg', 'fake'):
                for kind in kinds:
                    if engine == 'gpg':
                        sec._PGP = SplitPGP(sign=real, verify=stranger if kind == 'foreign' else real,
                                            mangle=(lambda b: b.replace(b'machine', b'mAchine')) if kind == 'tampered' else None)
                    else:
                        p = FakePGP(me=b'z' if kind == 'foreign' else b'a')
                        if kind == 'tampered':
                            p.mangle = lambda b: b[:-3] + bytes([b[-3] ^ 1]) + b[-2:]
                        sec._PGP = p
                    n0 = len(self.conns)
                    res = {}

                    def body(res=res):
                        try:
                            s = sec.connect((HOST, PORT[FARM]))
                            M.send(M.make(typ=M.Type.register, rev=REV, inc=7), s)
                            res['sent'] = True
                        except Exception as e:  # noqa
                            res['exc'] = type(e).__name__

                    self.sim.spawn(f'cal:{engine}:{kind}', body)
                    self.sim.run(max_steps=self.sim.steps + 400)
                    recs = self.conns[n0:]
                    tape = recs[0].tape if recs else Tape()
                    evs = [e[0] for e in tape]
                    outcomes[(engine, kind)] = ('delivered' if 'msg' in evs else 'nothing', 'closed' if 'lose' in evs else 'open')
                    self.op(f'{engine}/{kind}: {outcomes[(engine, kind)]} client={res}')
            for kind in kinds:
                a, b = outcomes[('gpg', kind)], outcomes[('fake', kind)]
                if a != b:
                    self.violate('gpg_calibration_mismatch', 'handshake_' + kind, f'real handshake with gpg: {a}, with FakePGP: {b}')
                want = ('delivered', 'open') if kind == 'valid' else ('nothing', 'closed')
                if a != want:
                    self.violate('gpg_calibration_mismatch', 'gpg_' + kind, f'real handshake with gpg and a {kind} signature: {a}, expected {want}')
            self.probes['gpg_calibrated'] += 1
            self.note('gpg-outcomes', sorted(outcomes.items()))
            self.nontrivial = True
        finally:
            for h in ('trusted', 'stranger'):
                p = os.path.join(d, h)
                if os.path.isdir(p):
                    try:
                        subprocess.run(['gpgconf', '--homedir', p, '--kill', 'gpg-agent'], capture_output=True, timeout=20)
                    except Exception:  # noqa
                        pass
            tempfile.tempdir = old_tempdir
            shutil.rmtree(d, ignore_errors=True)

    # ======================================================================
    def run(self):
        """cfg rounds=K: K independent scenarios in one run (a fork of the run server costs far more than a cheap scenario);
        every round starts from a fresh Sim and fresh module state, the chooser just goes on; the event-log digests of
        the earlier rounds are folded into the last one's."""
        cfg = self.cfg
        mode = cfg['mode']
        rounds = int(cfg.get('rounds', 1))
        any_nontrivial = False
        for rnd in range(rounds):
            if rnd:
                self.fold()
                self.op(f'---- round {rnd} ----')
            net = None
            if mode == 'net':
                net = self.netcfg()
            elif mode == 'client':
                net = self.netcfg(short=True)
            elif mode in ('gpg', 'whole'):
                net = HoldNet()
            self.conns, self.flows = [], []
            self.nontrivial = False
            self.setup(net)
            if mode == 'whole':
                # fault-free: whole writes, no delay, no short read, valid handshakes, FIFO delivery is the chooser's value 0
                self.cfg['prechunk'] = False
                self.cfg['hs_faults'] = False
                self.run_client() if self.ch.choose('gen.wholekind', 2) else self.run_net()
                self.nontrivial = any(msgs_of(view(r.tape)) for r in self.conns)
            else:
                getattr(self, 'run_' + mode)()
            any_nontrivial = any_nontrivial or self.nontrivial
            if self.violations:
                break
        self.nontrivial = any_nontrivial
        return self.result()

    def fold(self):
        sim = self.sim
        self.acc_steps += sim.steps
        self.acc_vtime += sim.now
        self.acc_kinds.update(sim.kinds)
        self.acc_counts.update(sim.counts)
        self.summary.update(sim.digest().encode())

    def result(self):
        sim = self.sim
        sim.log('summary', self.summary.hexdigest()[:16])
        counts = collections.Counter(self.acc_counts)
        counts.update(sim.counts)
        kinds = collections.Counter(self.acc_kinds)
        kinds.update(sim.kinds)
        faults = dict(self.faults)
        faults.update({k: v for k, v in counts.items() if k.startswith('net.') and k != 'net.connections'})
        return dict(violations=self.violations, probes=dict(self.probes), faults=faults, steps=self.acc_steps + sim.steps + self.feeds,
                    vtime=round(self.acc_vtime + sim.now, 3), digest=sim.digest(), nontrivial=bool(self.nontrivial), kinds=dict(kinds),
                    feeds=self.feeds, sample=self.ops[:60], ops=self.ops)


def sweep_stale_gpg_homes():
    """a child killed by the run server's watchdog cannot clean up: the next calibration run does it"""
    try:
        names = sorted(n for n in os.listdir('/dev/shm') if n.startswith('verif-wire-') and n[11:].isdigit())
    except OSError:
        return
    for n in names:
        pid = int(n[11:])
        try:
            os.kill(pid, 0)
            continue  # its owner is alive
        except ProcessLookupError:
            pass
        except OSError:
            continue
        root = os.path.join('/dev/shm', n)
        for h in ('trusted', 'stranger', 'foreign'):
            if os.path.isdir(os.path.join(root, h)):
                try:
                    subprocess.run(['gpgconf', '--homedir', os.path.join(root, h), '--kill', 'gpg-agent'], capture_output=True, timeout=20)
                except Exception:  # noqa
                    pass
        shutil.rmtree(root, ignore_errors=True)


def ref_parse_hs(stream):
    """split a legacy client's bytes into (signed id, signed echo) and the application bytes"""
    out, i = [], 0
    for _ in range(2):
        if i + 8 > len(stream):
            return None, b''
        four, n = struct.unpack('>II', stream[i:i + 8])
        if four != 4 or i + 8 + n > len(stream):
            return None, b''
        out.append(stream[i + 8:i + 8 + n])
        i += 8 + n
    return out, stream[i:]


class SplitPGP:
    """client signs with one gpg home, server verifies with another (two processes in production)"""

    def __init__(self, sign, verify, mangle=None):
        self._s, self._v, self._m = sign, verify, mangle

    def sign(self, message, **kw):
        r = self._s.sign(message, **kw)
        if self._m is not None and r.data:
            r.data = self._m(r.data)
        return r

    def verify(self, data):
        return self._v.verify(data)

    def decrypt(self, data):
        return self._v.decrypt(data)


# --------------------------------------------------------------------------
# scripted client (net mode)
# --------------------------------------------------------------------------


class ScriptClient:
    def __init__(self, world, channel, items, sc, idx):
        self.world, self.channel, self.items, self.sc, self.idx = world, channel, items, sc, idx
        self.received = b''
        self.state = 'new'
        self.rec = None
        self.nsplit = 0
        self.glued = False
        self.idp = b' machine: 10.0.1.1\nusername: sim\n'

    def start(self):
        w = self.world
        self.conn = w.sim.connect(PORT[self.channel], self)
        self.rec = w.on_connect(self.conn, script=self)
        self.rec.idp = self.idp
        stream = b''.join(it.frame for it in self.items)
        if self.rec.legacy:
            self.state = 'await_challenge'
            self.send(packet(self.sc.pre1, self.sc.len1, signed(self.sc.sig_id, self.idp)))
            if not sc_ok_id(self.sc):
                # the server will never send a challenge: push the rest anyway (it must not be processed)
                p2 = packet(self.sc.pre2, self.sc.len2, signed(self.sc.sig_echo, b'timestamp: none\nunique id: 0'))
                self.glued = True
                self.send(p2 + stream)
                self.state = 'sent'
        else:
            self.send(stream)
            self.state = 'sent'

    def send(self, data):
        if self.conn.client_gone:
            return
        pcs = self.world.pieces(data, 'c2s')
        self.nsplit = max(self.nsplit, len(pcs))
        for p in pcs:
            self.conn.client_send(p)

    def on_data(self, data):
        self.received += data
        if self.state == 'await_challenge' and len(self.received) >= 4:
            n = struct.unpack('>I', self.received[:4])[0]
            if len(self.received) >= 4 + n:
                chal = self.received[4:4 + n]
                echo = chal if self.sc.echo == 'echo' else wrong_echo(chal)
                p2 = packet(self.sc.pre2, self.sc.len2, signed(self.sc.sig_echo, echo))
                stream = b''.join(it.frame for it in self.items)
                self.state = 'sent'
                if self.world.ch.choose('gen.glue', 2) == 0:
                    self.glued = True
                    self.send(p2 + stream)  # application bytes in the same write as the final handshake packet
                else:
                    self.send(p2)
                    self.send(stream)

    def on_eof(self):
        pass

    def on_reset(self):
        pass


# --------------------------------------------------------------------------
# real-client flows (client mode)
# --------------------------------------------------------------------------


class Flow:
    def __init__(self, world, kind, idx):
        import dawgie.pl.message as M
        from dawgie.db.shelve.comms import COMMAND, KEYSET
        from dawgie.db.shelve.enums import Func, Table

        self.world, self.kind, self.idx = world, kind, idx
        ch, cap = world.ch, world.cfg['maxpay']
        self.stage = 'new'
        self.exc = None
        self.got = []
        self.want = []
        self.where = ''
        if kind == 'worker':
            self.inc = 10 + idx
            self.nwait = ch.choose('gen.nwait', 4)
            self.task = M.make(typ=M.Type.task, jid='p.a', target='T1', rid=3, fac=('mod', 'task'), ctxt=world.payload(cap), tim={})
            self.response = M.make(typ=M.Type.response, inc='T1', jid='p.a', rid=3, suc=True, tim={'x': 1.0},
                                   val=[('p.a.s.v', True)], ctxt=world.payload(cap))
        elif kind == 'status':
            self.rev = (REV, 'old')[ch.choose('gen.staterev', 2)]
        elif kind == 'db':
            self.cmds = []
            for j in range(1 + ch.choose('gen.ncmd', 3)):
                if ch.choose('gen.cmdkind', 2) == 0:
                    key = (idx, j, 3, 4, 5, 6)
                    which = ch.choose('gen.edge_of', 2)  # the reply's pickle or the request's
                    edge = world.edge_payload(cap + 8, (lambda b: len(pickle.dumps(db_reply(COMMAND(Func.set, key, Table.prime, b)), pickle.HIGHEST_PROTOCOL)))
                                              if which == 0 else (lambda b: len(pickle.dumps(COMMAND(Func.set, key, Table.prime, b), pickle.HIGHEST_PROTOCOL))))
                    c = COMMAND(Func.set, key, Table.prime, edge if edge is not None else world.payload(cap))
                else:
                    c = COMMAND(Func.get, (idx, j, 3, 4, 5, 6), Table.prime, None)
                self.cmds.append(c)
        elif kind == 'lock':
            self.name = f'w{idx}'
        else:
            self.records = [world.log_record(ch.choose('gen.logkind', 3), world.payload(cap).decode('latin-1'))
                            for _ in range(1 + ch.choose('gen.nrec', 4))]

    def describe(self):
        k = self.kind
        if k == 'worker':
            return f'worker: register inc={self.inc}, receive {self.nwait} wait(s) + task({len(self.task.context)}B), new connection: response({len(self.response.context)}B)'
        if k == 'status':
            return f'status query with revision {self.rev}'
        if k == 'db':
            return 'Connector.__do x ' + str([(c.func.name, len(c.value) if c.value is not None else None) for c in self.cmds])
        if k == 'lock':
            return 'comms.acquire + comms.release'
        return f'TwistedHandler.emit x {[len(r.args[1]) for r in self.records]}'

    def body(self):
        import dawgie.security as sec
        import dawgie.pl.message as M
        import dawgie.db.shelve.comms as comms
        import dawgie.pl.logger as logger
        from dawgie.db.shelve.enums import Func

        try:
            k = self.kind
            if k == 'worker':
                self.stage = 'connect'
                s = sec.connect((HOST, PORT[FARM]))
                self.stage = 'talk'
                M.send(M.make(typ=M.Type.register, inc=self.inc, rev=REV), s)
                m = M.make(typ=M.Type.wait)
                while m.type == M.Type.wait:
                    m = M.receive(s)
                    self.got.append(m)
                s.close()
                self.want = [M.make()] * self.nwait + [self.task]
                self.stage = 'connect'
                s = sec.connect((HOST, PORT[FARM]))
                self.stage = 'talk'
                M.send(self.response, s)
                s.close()
            elif k == 'status':
                self.stage = 'connect'
                s = sec.connect((HOST, PORT[FARM]))
                self.stage = 'talk'
                M.send(M.make(typ=M.Type.status, rev=self.rev), s)
                self.got.append(M.receive(s))
                s.close()
                ok = self.rev == REV and self.world.active
                self.want = [M.make(typ=M.Type.response, suc=ok)]
            elif k == 'db':
                for c in self.cmds:
                    self.stage = 'connect'
                    self.got.append(comms.Connector._Connector__do(c))
                    self.want.append(db_reply(c))
            elif k == 'lock':
                self.stage = 'connect'
                s = comms.acquire(self.name)
                self.stage = 'talk'
                self.got.append(comms.release(s))
                self.want = [True]
            else:
                h = logger.TwistedHandler(HOST, PORT[LOG])
                self.stage = 'connect'
                for r in self.records:
                    h.emit(r)
                self.stage = 'talk'
                if h.sock is None:
                    raise ConnectionError('TwistedHandler could not connect')
                self.sock_rec = h.sock.rec
                h.close()
            self.stage = 'done'
        except core.ThreadKilled:
            raise
        except Exception as e:  # noqa
            self.exc = e
            import traceback

            self.where = ''.join(traceback.format_exception(type(e), e, e.__traceback__)[-3:])[-400:]

    def hs_failed(self):
        w = self.world
        mine = [r for r in w.conns if r.sock is not None and r.sock.flow is self]
        return w.legacy and any(('echo', True) not in r.tape for r in mine)

    def judge(self):
        w = self.world
        if self.exc is not None or self.stage != 'done':
            what = type(self.exc).__name__ if self.exc is not None else 'stuck'
            if self.hs_failed():
                pass  # consequence of a handshake that did not complete: reported once, by judge_conns
            else:
                w.violate('client_framing', f'{self.kind}:{what}',
                          f'flow {self.idx} ({self.kind}) at stage {self.stage}: {what} {self.where}')
            return
        if self.hs_failed():
            return
        got = [canon(x) for x in self.got]
        want = [canon_sent(x) for x in self.want]
        if got != want:
            w.violate('client_framing', f'{self.kind}:objects',
                      f'flow {self.idx} ({self.kind}): client code returned {[g[:2] for g in got]}, the server sent {[x[:2] for x in want]}')
        if self.kind == 'log':
            h = logging.handlers.SocketHandler('x', 1)
            sent = [canon_record(logging.makeLogRecord(pickle.loads(h.makePickle(r)[4:]))) for r in self.records]
            seen = msgs_of(view(self.sock_rec.tape))
            if sent != seen:
                w.violate('client_framing', 'log:records',
                          f'flow {self.idx}: TwistedHandler emitted {len(sent)} record(s) {[x[:2] for x in sent]}, the sink handled {[x[:2] for x in seen]}')
        w.probes['flow_' + self.kind + '_done'] += 1
        w.note('flow', self.idx, self.kind, got)


class Pusher:
    """the pipeline side of a worker conversation: wait messages and the task, sent through the real
    Hand.notify / Hand.do once the worker's registration has been processed"""

    def __init__(self, world):
        self.world = world

    def pending(self):
        import dawgie.pl.farm as farm

        out = []
        for rec in self.world.conns:
            if rec.channel != FARM or rec.conn.server_gone or rec.conn.transport.disconnecting:
                continue
            if rec.inner not in farm._workers:
                continue
            inc = getattr(rec.inner, '_Hand__incarnation', None)
            fl = next((f for f in getattr(self.world, 'flows', []) if f.kind == 'worker' and f.inc == inc), None)
            if fl is not None and rec.pushed <= fl.nwait:
                out.append((rec, fl))
        return out

    def next_time(self, now):
        return None

    def enabled(self, now):
        return [(f'push:{rec.conn.cid}', (lambda rec=rec, fl=fl: self.push(rec, fl))) for rec, fl in self.pending()]

    def push(self, rec, fl):
        t = rec.tape
        t.pushing, CUR[0] = True, t
        try:
            if rec.pushed < fl.nwait:
                rec.inner.notify(keep=True)
            else:
                rec.inner.do(fl.task)
            rec.pushed += 1
        finally:
            t.pushing, CUR[0] = False, None


# --------------------------------------------------------------------------


def warmup():
    boot.setup()
    import logging.handlers  # noqa
    import dawgie.pl.farm  # noqa
    import dawgie.db.shelve.comms  # noqa
    import dawgie.pl.logger  # noqa
    import gnupg  # noqa

    install()
    return True


def run(ch, cfg):
    return WireWorld(ch, cfg).run()
