"""Reference model of the persistence layer (DESIGN.md section 4, W-STORE).

  prime : {(run, target, task, alg, algver, sv, svver, val, valver) -> [alternative, ...]}
          an alternative is ABSENT or (content, digest); a definite entry has exactly one
          alternative.  More than one alternative only arises from an update whose `set` was
          never acknowledged to the client (client died / connection reset / crash).
  blobs : digests that are certainly in the store; maybe_blobs : digests that may be.
  The model never reads DAWGIE's tables; `rows_from_tables` below is the *brute-force reader*
  used by oracles that are defined over the catalogue content (C08 chain, C17 search).
"""

import copy
import hashlib
import pickle

ABSENT = ('<absent>',)
UNTOUCHED = ('<untouched>',)


def vstr(ver):
    return 'unversioned' if ver is None else '.'.join(str(x) for x in ver)


class Intent:
    """one value an update is about to store"""

    __slots__ = ('run', 'target', 'ident', 'content', 'digest')

    def __init__(self, run, target, ident, content, digest):
        self.run, self.target, self.ident, self.content, self.digest = run, target, ident, content, digest

    @property
    def key(self):
        return (self.run, self.target) + self.ident

    @property
    def names(self):
        i = self.ident
        return (self.run, self.target, i[0], i[1], i[3], i[5])

    def brief(self):
        i = self.ident
        return f'{self.run}.{self.target}.{i[0]}.{i[1]}@{vstr(i[2])}.{i[3]}@{vstr(i[4])}.{i[5]}@{vstr(i[6])}'


def digest_of(value):
    """what the blob of `value` must be called: md5_sha1 of its serialised bytes"""
    data = pickle.dumps(value, pickle.HIGHEST_PROTOCOL)
    return hashlib.md5(data).hexdigest() + '_' + hashlib.sha1(data).hexdigest()


def file_digest(path):
    with open(path, 'rb') as f:
        data = f.read()
    return hashlib.md5(data).hexdigest() + '_' + hashlib.sha1(data).hexdigest()


class Model:
    def __init__(self):
        self.prime = {}
        self.blobs = set()
        self.maybe_blobs = set()
        self.acked = 0
        self.uncertain = 0

    # -- updates -------------------------------------------------------------
    def ack(self, intent):
        self.prime[intent.key] = [(copy.deepcopy(intent.content), intent.digest)]
        self.blobs.add(intent.digest)
        self.maybe_blobs.discard(intent.digest)
        self.acked += 1

    def ack_overlapping(self, intent):
        """acknowledged while another update ran side by side (mutual exclusion broken by a fault): the entry
        exists, but which of the concurrent writers wrote last is not known to the model"""
        new = (copy.deepcopy(intent.content), intent.digest)
        alts = [a for a in self.prime.get(intent.key, []) if a is ABSENT or a[1] != new[1]]
        self.prime[intent.key] = alts + [new] if any(a is not ABSENT for a in alts) else [new]
        self.blobs.add(intent.digest)
        self.maybe_blobs.discard(intent.digest)
        self.acked += 1

    def maybe(self, intent):
        """the set may or may not have been applied"""
        alts = list(self.prime.get(intent.key, [ABSENT]))
        new = (copy.deepcopy(intent.content), intent.digest)
        if not any(a is not ABSENT and a[1] == new[1] for a in alts):
            alts.append(new)
        self.prime[intent.key] = alts
        if intent.digest not in self.blobs:
            self.maybe_blobs.add(intent.digest)
        self.uncertain += 1

    def remove_names(self, run, target, task, alg, sv, val):
        """exact-name removal (all versions): returns the removed keys"""
        gone = [k for k in self.prime if (k[0], k[1], k[2], k[3], k[5], k[7]) == (run, target, task, alg, sv, val)]
        for k in gone:
            del self.prime[k]
        return gone

    def drop(self, keys):
        for k in keys:
            self.prime.pop(k, None)

    def purge(self):
        """db.tools.purge: every file not referenced by a catalogue entry is deleted"""
        definite = self.referenced(definite_only=True)
        possible = self.referenced()
        self.maybe_blobs = (self.blobs | self.maybe_blobs) & (possible - definite)
        self.blobs &= definite

    # -- queries -------------------------------------------------------------
    def entries(self, target, ident):
        """{run: alternatives} of one identity-with-versions on one target"""
        return {k[0]: alts for k, alts in self.prime.items() if k[1] == target and k[2:] == ident}

    def load_outcomes(self, target, ident, runid):
        """everything a load for (ident, target) with the requested run may legitimately return:
        a list of UNTOUCHED / (content, digest)"""
        ent = self.entries(target, ident)
        out = []

        def add(o):
            if not any(o is x or (o is not UNTOUCHED and x is not UNTOUCHED and o[1] == x[1]) for x in out):
                out.append(o)

        def fallback(runs):
            for r in sorted(runs, reverse=True):
                maybe_absent = False
                for a in ent[r]:
                    if a is ABSENT:
                        maybe_absent = True
                    else:
                        add(a)
                if not maybe_absent:
                    return
            add(UNTOUCHED)

        if runid in ent:
            absent = False
            for a in ent[runid]:
                if a is ABSENT:
                    absent = True
                else:
                    add(a)
            if absent:
                fallback([r for r in ent if r != runid])
        else:
            fallback(list(ent))
        return out

    def definite_keys(self):
        return [k for k, alts in self.prime.items() if len(alts) == 1 and alts[0] is not ABSENT]

    def name_rows(self):
        """multiset (list) of version-less name tuples of all possibly-present entries"""
        return [(k[0], k[1], k[2], k[3], k[5], k[7]) for k in self.prime]

    def referenced(self, definite_only=False):
        out = set()
        for alts in self.prime.values():
            if definite_only and len(alts) != 1:
                continue
            for a in alts:
                if a is not ABSENT:
                    out.add(a[1])
        return out


# --------------------------------------------------------------------------
# brute-force reader of the catalogue (exact parsing, no prefix logic)
# --------------------------------------------------------------------------

SEP_P, SEP_V = ':parent___', '___version:'


def parse_name(full):
    """'<pid>:parent___<name>___version:<d.i.b>' -> (pid|None, name, (d,i,b)|None); exact, split at the
    first parent separator and the last version separator"""
    pid = None
    if SEP_P in full:
        p, full = full.split(SEP_P, 1)
        pid = int(p)
    ver = None
    if SEP_V in full:
        full, v = full.rsplit(SEP_V, 1)
        ver = tuple(int(x) for x in v.split('.'))
    return pid, full, ver


class Catalogue:
    """a consistent reading of the six tables at one instant"""

    def __init__(self, tables):
        # tables: {name: dict}
        self.t = tables
        self.by_id = {}
        self.problems = []
        for tn in ('target', 'task', 'alg', 'state', 'value'):
            d = {}
            for name, i in tables[tn].items():
                if i in d:
                    self.problems.append(('id_shared', tn, f'id {i} names both {d[i]!r} and {name!r}'))
                d[i] = name
            self.by_id[tn] = d
        self.rows = None

    def check_bijection(self, indices=None):
        """each table: ids are exactly 0..len-1, one name each; indices[id] is the name"""
        out = list(self.problems)
        for tn in ('target', 'task', 'alg', 'state', 'value'):
            tab = self.t[tn]
            ids = sorted(tab.values())
            if ids != list(range(len(tab))):
                out.append(('ids_not_gap_free', tn, f'ids {ids} for {len(tab)} names'))
            if indices is not None:
                idx = list(indices[tn])
                if len(idx) != len(tab):
                    out.append(('index_length', tn, f'index has {len(idx)} names, table {len(tab)}'))
                for name, i in tab.items():
                    if not (0 <= i < len(idx)) or idx[i] != name:
                        out.append(('index_mismatch', tn, f'{name!r} has id {i} but index[{i}] is '
                                    f'{idx[i] if 0 <= i < len(idx) else None!r}'))
                        break
        return out

    def resolve(self):
        """every prime key -> (run, target, task, (alg, ver), (sv, ver), (val, ver), blob) through the
        parent chain; problems are reported, never raised"""
        rows, bad = [], []
        b = self.by_id
        for ks, blob in self.t['prime'].items():
            try:
                k = eval(ks, {'__builtins__': {}})  # noqa: S307  the table's own key format: a tuple literal
                run, tid, tsk, aid, sid, vid = k
                tgt = parse_name(b['target'][tid])
                task = parse_name(b['task'][tsk])
                alg = parse_name(b['alg'][aid])
                sv = parse_name(b['state'][sid])
                val = parse_name(b['value'][vid])
            except Exception as e:  # noqa
                bad.append(('unresolvable', ks, repr(e)))
                continue
            if task[0] is not None or tgt[0] is not None:
                bad.append(('chain', ks, 'task/target entry has a parent'))
            if alg[0] != tsk:
                bad.append(('chain', ks, f'algorithm {b["alg"][aid]!r} does not belong to task id {tsk}'))
            if sv[0] != aid:
                bad.append(('chain', ks, f'state vector {b["state"][sid]!r} does not belong to algorithm id {aid}'))
            if val[0] != sid:
                bad.append(('chain', ks, f'value {b["value"][vid]!r} does not belong to state vector id {sid}'))
            rows.append(dict(run=run, target=tgt[1], task=task[1], alg=alg[1], algver=alg[2], sv=sv[1], svver=sv[2],
                             val=val[1], valver=val[2], blob=blob, ids=k))
        self.rows = rows
        return rows, bad

    def key_of(self, r):
        return (r['run'], r['target'], r['task'], r['alg'], r['algver'], r['sv'], r['svver'], r['val'], r['valver'])

    def names_of(self, r):
        return (r['run'], r['target'], r['task'], r['alg'], r['sv'], r['val'])

    def alg_versions(self, task, alg):
        """registered versions of exactly-named task.alg"""
        tids = [i for i, n in self.by_id['task'].items() if parse_name(n)[1] == task]
        out = []
        for i, n in self.by_id['alg'].items():
            p, name, ver = parse_name(n)
            if name == alg and p in tids and ver is not None:
                out.append((ver, i))
        return out

    def task_algs(self):
        out = []
        for i, n in sorted(self.by_id['alg'].items()):
            p, name, _v = parse_name(n)
            if p in self.by_id['task']:
                ta = (parse_name(self.by_id['task'][p])[1], name)
                if ta not in out:
                    out.append(ta)
        return out


# --------------------------------------------------------------------------
# run-id expressions (C17)
# --------------------------------------------------------------------------


def denote_expr(expr, universe):
    """the set of run ids in `universe` an expression denotes, by the documented grammar:
    comma separated terms; 'a' one id; 'a:b' a<=r<b; 'a:' a<=r; ':b' 0<=r<b.  -1 is the
    'latest' marker and denotes nothing here."""
    out = set()
    for term in expr.split(','):
        term = term.strip()
        if not term:
            continue
        if ':' in term:
            a, b = term.split(':')
            lo = int(a) if a else 0
            hi = int(b) if b else None
            out |= {r for r in universe if lo <= r and (hi is None or r < hi)}
        else:
            v = int(term)
            if v in universe:
                out.add(v)
    return out


def denote_list(items, universe):
    """same for the normalised form: a list of ints and Range objects"""
    out = set()
    for it in items:
        if isinstance(it, int):
            if it in universe:
                out.add(it)
        else:
            out |= {r for r in universe if it.start <= r and (it.stop is None or r < it.stop)}
    return out


def canon(x):
    """strict canonical form of a content tree: equal iff same shape, same leaf types, same leaf values"""
    if isinstance(x, dict):
        return ('dict', tuple((canon(k), canon(v)) for k, v in x.items()))
    if isinstance(x, (list, tuple)):
        return (type(x).__name__, tuple(canon(v) for v in x))
    if isinstance(x, (bytes, bytearray)) and len(x) > 256:
        return (type(x).__name__, len(x), hashlib.sha1(x).hexdigest())
    return (type(x).__name__, repr(x))


def brief(x):
    """contents in messages: large byte strings are named by length and digest"""
    if isinstance(x, (bytes, bytearray)) and len(x) > 64:
        return f'<{len(x)} bytes sha1={hashlib.sha1(x).hexdigest()[:12]}>'
    r = repr(x)
    return r if len(r) <= 200 else r[:200] + '...'
