"""C07 oracles over the blob store and the staging area, and the purge tool as an operation."""

import os
import runpy
import sys

from worlds import store_model as sm


def listing(w):
    import dawgie.context as ctx

    return sorted(os.listdir(ctx.data_dbs)), sorted(os.listdir(ctx.data_stg))


def is_digest_name(name):
    return len(name) == 73 and name[32] == '_' and all(c in '0123456789abcdef' for c in name[:32] + name[33:])


def check_references(w, why, cat=None):
    """Every catalogue entry refers to an existing stored file -- at every point of the history (this is
    called between any two steps of the clients by the pipeline actor)."""
    import dawgie.context as ctx
    import dawgie.db

    blobs = set(os.listdir(ctx.data_dbs))
    n = 0
    for v in (cat.t['prime'].values() if cat is not None else dawgie.db._prime_values()):
        n += 1
        if v not in blobs:
            w.violate('C07', 'dangling_reference', why if why in ('mid-phase', 'crash') else 'quiet',
                      f'[{why}] a primary entry names blob {v} which is not in the store ({len(blobs)} files)')
            return
    w.probes['references_checked'] += 1
    if why == 'mid-phase' and any(c.alive and c.cur and c.cur['kind'] == 'update' for c in w.clients):
        w.probes['references_checked_during_update'] += 1


def check_store(w, why, crashed=False, cat=None):
    """C07 at a quiet point.
      * every stored file hashes to its own name;
      * no dangling reference;
      * identical content is kept once: the store holds exactly the digests the model says were stored (no
        second copy under another name) and, in a history without faults, nothing is left in staging.
    Leniencies: after a fault (killed client, reset connection, crash, disk error) staged leftovers and
    unreferenced blobs of un-acknowledged updates are allowed."""
    import dawgie.context as ctx

    check_references(w, why, cat=cat)
    if w.stopped:
        return
    blobs, staged = listing(w)
    m = w.model
    temp = [b for b in blobs if not is_digest_name(b)]
    if temp:
        # a file that does not even claim to be a blob (a temporary of the move): a staging leftover that
        # happens to live in the store directory -- allowed after a fault, like any staging leftover
        w.probes['temporary_file_in_store'] += 1
        if not w.faulty_history():
            w.violate('C07', 'staging_leftover', 'in_store', f'[{why}] the store holds {temp[:3]} after all updates completed')
        blobs = [b for b in blobs if is_digest_name(b)]
    for b in blobs:
        d = sm.file_digest(os.path.join(ctx.data_dbs, b))
        if d != b:
            size = os.path.getsize(os.path.join(ctx.data_dbs, b))
            w.violate('C07', 'blob_name_mismatch', 'empty_file' if size == 0 else 'content',
                      f'[{why}] stored file {b} ({size} bytes) hashes to {d}')
            return
    have = set(blobs)
    missing = sorted(m.blobs - have)
    extra = sorted(have - m.blobs - m.maybe_blobs)
    if missing:
        w.violate('C07', 'stored_content_missing', 'file', f'[{why}] content {missing[0][:16]}.. was stored (and not purged) but its file is gone')
    if extra:
        w.violate('C07', 'unknown_file_in_store', 'second_copy' if not w.faulty_history() else 'after_fault',
                  f'[{why}] the store holds {extra[0]} which is not the digest of any stored content')
    if staged and not w.faulty_history():
        w.violate('C07', 'staging_leftover', 'no_fault', f'[{why}] staging area still holds {staged[:3]} after all updates completed')
    if staged:
        w.probes['staging_leftover_after_fault'] += 1
    w.probes['store_checked'] += 1
    if len(have) < sum(1 for k in m.prime):
        w.probes['store_fewer_files_than_entries'] += 1


def purge(w):
    """dawgie.db.tools.purge run as __main__ (runpy) on a closed database, as its documentation demands"""
    import dawgie.context as ctx
    import dawgie.db

    m = w.model
    dawgie.db.close()
    argv = sys.argv
    sys.argv = ['purge']
    code = None
    saved = {k: getattr(ctx, k) for k in ('git_rev', 'display', 'cloud_provider') if hasattr(ctx, k)}
    try:
        runpy.run_module('dawgie.db.tools.purge', run_name='__main__')
    except SystemExit as e:
        code = e.code
    finally:
        sys.argv = argv
        for k, v in saved.items():
            setattr(ctx, k, v)
    from dawgie.db.shelve.state import DBI

    if not all(t is not None for t in DBI().tables):
        dawgie.db.open()
    # the tool leaves the database open (it ends with the process); the history goes on with a clean reopen
    dawgie.db.close()
    dawgie.db.open()
    before = len(m.blobs)
    if code is None:
        m.purge()
    w.op(f'pl: purge tool (exit {code}): model keeps {len(m.blobs)} of {before} blobs')
    w.probes['purge'] += 1
    if code is None and before > len(m.blobs):
        w.probes['purge_deleted_orphans'] += 1
    w.check_catalogue('purge', reopened=True)
    if not w.stopped:
        check_store(w, 'purge')
