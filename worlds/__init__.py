"""Worlds: which real DAWGIE code runs together under the simulator."""
from sim import boot as _boot

_boot.setup()  # the tree under test must be imported under the sim reactor before any world module
