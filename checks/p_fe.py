"""C19: the stranger at the front end (worlds/fe.py)"""
from checks.common import FSM_COMPONENTS

COMPONENTS = {
    'real': FSM_COMPONENTS['real'] + ['dawgie.fe._static / StaticContent / RoutePoint', 'dawgie.fe.basis.DynamicContent (access check, argument mapping, method table)',
                                      'dawgie.security.sanctioned / is_sanctioned / identity', 'every endpoint registered by dawgie.fe.api and dawgie.fe.app',
                                      'twisted.web request parsing (requests are raw HTTP bytes on a simulated connection)', 'the file system (real directories, files and symlinks under /dev/shm)'],
    'stub': FSM_COMPONENTS['stub'] + ['TLS (the peer certificate is an attribute of the simulated connection)', 'dawgie.pl.snapshot.grab (walks every object of the interpreter; replaced by a counter)'],
}


def fe(name, q, t, **cfg):
    return dict(name=name, world='worlds.fe', cfg=cfg, runs=dict(quick=q, thorough=t))


PROPS = {
    'C19': dict(
        level='exploration', components=COMPONENTS,
        rule=('one run = a running pipeline (generated engine, scripted workers) plus a per-run configuration (client certificates configured or not, access hook default/raising/deny/allow, '
              'bundled or own site directory, canary files outside the roots, symlinks inside them) and a chooser-driven stream of raw HTTP requests: static paths built from .., ., empty, '
              'encoded, absolute and over-long segments and symlinks, and every registered endpoint x GET/POST/PUT/DELETE with or without a peer certificate; '
              'non-trivial = at least 3 requests and one scheduler reordering; distinct = event-log digest'),
        level_text='seeded search over request paths, endpoint x method x certificate combinations, hook configurations and request instants against the real Site; oracle = canary tokens in response bodies, handler-entry counters and a before/after snapshot of scheduler and life-cycle state; sampling, not proof',
        level_note=('input-heavy property: containment is a function of (path, file-system layout, configuration); the simulator owns the layout, the configuration and the instant of each request. '
                    'trusted: simulator kernel, the canary oracle, the list of state-changing endpoints taken from the statement (run, reset, submit, snapshot)'),
        probes=['static_request', 'static_file_inside_root_served', 'static_jailbreak_reported', 'stranger_at_protected_endpoint', 'stranger_served_public_endpoint',
                'request_with_raising_hook', 'protected_endpoint_entered_with_access', 'symlink_retargeted'],
        batches=[
            fe('static-and-endpoints', 900, 40000, faults=False),
            fe('certificates-configured', 500, 30000, faults=False, client_certs=True, hook='default'),
            fe('with-faults', 300, 20000, faults=True, net=True),
        ],
        wall=dict(quick=100, thorough=1500),
    ),
}
