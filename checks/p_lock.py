"""C13 -- the database lock is exclusive, survives client crashes, is eventually granted (world W-LOCK)."""

LOCK_COMPONENTS = {
    'real': ['dawgie.db.shelve.comms.Worker (do, _do_acquire, _do_release, connectionLost, _lock_db, _unlock_db)',
             'dawgie.db.shelve.comms.DBSerializer', 'dawgie.db.shelve.comms.acquire / release / Connector (client side, controlled threads)',
             'dawgie.db.shelve.comms.Worker._delay_copy / _do_copy (Func.dbcopy, Method.connector) in a pool thread of the simulated reactor: '
             'loop-back acquire/release over the simulated TCP, DBI close/open/copy',
             'dawgie.pl.message.receive', 'dawgie.context.lock_db / unlock_db / db_lock', 'dawgie.db.lockview.TaskLockEngine',
             'dawgie.db.shelve.state.DBI on dbm.dumb (open throughout)', 'twisted LoopingCall / DelayedCall / Protocol / Factory'],
    'stub': ['reactor (sim.core.SimReactor)', 'TCP (sim.core.SimConn: chunking, delay, coalescing, reset, end of stream)',
             'dawgie.security.connect -> worlds.lock.LockSocket (sim.core.SimSocket + protocol points)',
             'TLS (in-memory transport, security._myself stub certificate)', 'clock (sim.boot.SimDateTime)',
             'client processes = controlled threads; a dead process = a thread never released again',
             'dawgie.db.shelve.util.make_staging_dir (os.system mkdir) done in-process'],
}

LOCK_RULE = ('one run = one generated scenario (1-6 clients x 1-3 rounds of acquire/hold/release with start phases, hold times, optional '
             'table read while holding, optional release without acquire, optional database copy = the server itself takes the lock through a '
             'loop-back connection; plain or chunked/delayed network) executed repeatedly inside the run: '
             'fault-free batch = 3 interleavings; enumeration batch = 1 fault-free pass + one execution per (client, protocol point, '
             'mode in {reset, fin}, capped at 70 per run) with the disconnect injected exactly there + 3 executions with random timed/multiple disconnects; '
             'non-trivial = some acquire reached the server while the lock was held (contention), at least one scheduler reordering and, '
             'in the enumeration batch, at least one disconnect fired; distinct = distinct digest over the event logs of all executions of the run')

LT = ('fault enumeration inside each seeded run: every client protocol point of the generated scenario (before each send, before each close, '
      'at the start and at the end of each blocking receive, i.e. connect/acquire sent/each poll answer/hold/release sent/ack/close) gets a '
      'disconnect in two modes (positions that the server cannot tell from the preceding one are not repeated), followed by seeded search '
      'with timed and multiple disconnects; exhaustive only over the points of each generated scenario and the interleaving recorded in its '
      'fault-free pass, not over scenarios or interleavings; at most 70 injected executions per run: a scenario with more positions (about '
      'half of them, typically 4+ clients) gets a chooser-chosen subset, counted in probe enumerated_positions_skipped_by_cap')
LN = ('trusted: the simulator kernel (sim/), LockSocket as a model of a blocking TLS socket, the frame decoder of the oracle; '
      'a client process is modelled as a controlled thread whose only contact with the server is its sockets; db.post backend not exercised; '
      'clients are the real comms.acquire/release (a client that sends acquire twice or release while waiting is not generated)')


def lock(name, runs_q, runs_t, chunk=None, **cfg):
    # chunk = runs per forked child.  A run of the enumeration batch is a whole scenario executed ~50-100 times (seconds of
    # CPU): one run per child keeps it far below the run server's watchdog (90 s) also when the machine is heavily oversubscribed
    # (observed: machine-wide phases of 10-30x slowdown while 6 builders ran their tiers at once; VERIF_CHILD_TIMEOUT raises the watchdog).
    d = dict(name=name, world='worlds.lock', cfg=cfg, runs=dict(quick=runs_q, thorough=runs_t))
    if chunk:
        d['chunk'] = chunk
    return d


PROPS = {
    'C13': dict(
        level='fault_enumeration', rule=LOCK_RULE, components=LOCK_COMPONENTS, level_text=LT, level_note=LN,
        probes=['grant', 'grant_after_waiting', 'acquire_while_held', 'busy_answer', 'release_by_non_holder_while_held',
                'enumerated_positions', 'random_executions', 'disconnect_of_waiter', 'disconnect_of_holder',
                'disconnect_while_granted_unreported', 'disconnect_of_acquire_in_flight', 'disconnect_of_connected_nothing_sent',
                'grant_to_client_that_already_died_unnoticed', 'holder_connection_lost', 'waiter_connection_lost',
                'client_spinning_on_eof', 'final_state_checked',
                'copy_round', 'copy_answered', 'copy_took_lock', 'copy_took_lock_after_waiting', 'copy_took_lock_while_others_wait',
                'waiter_told_after_copy', 'disconnect_of_copy_client'],
        batches=[
            # the heavy batch first: chunks are queued in batch order and the wall budget cuts the tail; every run of
            # the enumeration batch starts with a fault-free execution, so fault-free behaviour is covered either way
            lock('disconnect-enumeration', 192, 3200, chunk=1, faults=True),
            lock('fault-free', 480, 16000, faults=False),
        ],
        wall=dict(quick=75, thorough=900),
        assumptions=['clients are well-formed (real comms.acquire / comms.release / Connector); one acquire per connection',
                     'a disconnect is a client process death (reset or end of stream after the data already sent) or, in the random '
                     'phase, a connection drop with the client alive'],
    ),
}
