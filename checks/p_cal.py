"""W-CAL (worlds/cal.py): the calendar halves of C18 and C20.

C18(b): chronicle.append / chronicle.find / fe.api.schedule.succeeded|failed over histories of completions driven
        through the real schedule.complete on the virtual clock.
C20(a): schedule._delay / schedule.view_events over (event specification, clock instant) pairs.

The W-PIPE halves (C18 sentence 1 on the live pipeline; C20 sentences 2-3) are further batches appended to the same
properties by the lead.
"""

CAL_COMPONENTS = {
    'real': ['dawgie.pl.schedule.complete', 'dawgie.pl.schedule._delay', 'dawgie.pl.schedule.view_events', 'dawgie.schedule (EVENT/MOMENT validation)',
             'dawgie.pl.logger.chronicle (append, find, _load)', 'dawgie.fe.api.schedule (succeeded, failed)', 'dawgie.pl.dag.Node',
             'json journal files on a per-run tmpfs directory'],
    'stub': ['clock (sim.boot.SimDateTime on the simulator clock, steps through boot.clock_jump)', 'reactor (sim.core.SimReactor; only its clock is used)',
             'the scheduler around complete(): the harness puts the unit into doing / the node into que as a release would',
             'the web layer above fe.api.schedule: the functions are called with the list-of-str arguments DynamicContent passes',
             'event owners: EVENTs are built by the real dawgie.schedule() for placeholder factory/algorithm objects'],
}

NOTE = ('for a fixed history / instant these are pure functions: what the simulator owns is the clock (instants, steps backwards and forwards), '
        'the history (order and instants of completions on the virtual clock) and the query instant. trusted: the simulator kernel (sim/), '
        'the brute-force window filter and the day-by-day reference calendar in worlds/cal.py. chronicle.append is only reachable from the reactor '
        'thread (Hand._res -> schedule.complete), so appends are not interleaved from several threads. db.post backend not involved.')

C18_RULE = ('one run = one history of 5-60 completions through the real schedule.complete at chooser-chosen instants of 2023-2028 (same instant, '
            'microseconds apart, around midnights / month ends / year ends / leap days, days to months apart; several per run id and day, several run '
            'ids per day; outcomes success/failure/invalid), the journal re-read after every append, then 5-30 queries (chronicle.find and '
            'fe.api.schedule.succeeded/failed; bounds on / next to entry instants, at midnights, at arbitrary times of day, far past, far future, '
            'after >= before; limits 1..n+2 or none); non-trivial = at least 5 entries on at least 2 distinct days and at least one query whose '
            'brute-force window is not empty; distinct = distinct event-log digest (the op log is part of the digest)')

C20_RULE = ('one run = 1-5 event specifications built by the real dawgie.schedule (boot; weekday 0-6; day of month 1-31 biased to 28-31; calendar date; '
            'any time of day, naive or UTC) registered as periodic nodes, and 20-200 (event, instant) evaluations of schedule._delay / '
            'schedule.view_events on a clock walking through 2023-2028 (offsets of 0, +-1 us, +-1 s, +-299/300/301 s, hours around the event\'s own '
            'occurrences; midnights; month ends 28/29/30/31; Feb 29; Dec 31 -> Jan 1); non-trivial = at least 15 _delay evaluations, one of them of a '
            'non-boot event, and at least one instant within 300 s of a true occurrence; distinct = distinct event-log digest')

LT = ('seeded search over completion/query instants (C18) and over (specification, instant) pairs (C20) on the virtual clock, with clock steps as the '
      'only fault kind; oracle = brute force over everything the harness appended / a day-by-day reference calendar; sampling, not proof')


def cal(name, runs_q, runs_t, chunk, **cfg):
    # runs of this world cost milliseconds: larger chunks than the default 20 keep the fork overhead small
    return dict(name=name, world='worlds.cal', cfg=cfg, runs=dict(quick=runs_q, thorough=runs_t), chunk=chunk)


PROPS = {
    'C18': dict(
        level='exploration', rule=C18_RULE, components=CAL_COMPONENTS, level_text=LT, level_note=NOTE,
        probes=['entries_same_instant', 'entry_near_midnight', 'entry_at_month_end', 'entry_at_year_end', 'entry_on_leap_day',
                'several_per_runid_and_day', 'several_runids_per_day', 'appended_out_of_time_order',
                'query_both', 'query_both_limit', 'query_before', 'query_before_limit', 'query_limit', 'query_after', 'query_after_limit',
                'query_via_find', 'query_via_endpoint', 'query_after_ge_before', 'query_truncated', 'query_window_spans_days',
                'query_bound_at_entry_instant', 'query_bound_at_midnight', 'query_bound_arbitrary_time_of_day', 'query_bound_far_past',
                'query_bound_far_future', 'query_all_none_valueerror', 'query_bound_with_utc_offset'],
        batches=[
            cal('cal-fault-free', 1500, 20000, 50, mode='history', faults=False),
            cal('cal-clock-steps', 1500, 20000, 50, mode='history', faults=True),
            # fault-free again, but every bound is written with a chooser-chosen UTC offset (same instants, other notation)
            cal('cal-utc-offset-bounds', 500, 6000, 50, mode='history', faults=False, tz_offsets=True),
        ],
        wall=dict(quick=75, thorough=880),
        assumptions=['bounds are timezone-aware datetimes / ISO strings (UTC; in batch cal-utc-offset-bounds any UTC offset); naive bounds are not generated',
                     'journal directory on tmpfs (/dev/shm)'],
    ),
    'C20': dict(
        level='exploration', rule=C20_RULE, components=CAL_COMPONENTS, level_text=LT, level_note=NOTE,
        probes=['instant_on_feb_29', 'instant_on_month_end_28', 'instant_on_month_end_29', 'instant_on_month_end_30', 'instant_on_month_end_31',
                'instant_at_year_end', 'instant_near_midnight', 'instant_in_minute_around_event', 'instant_within_grace_of_event',
                'dom_exceeds_length_of_next_month', 'dom_exceeds_length_of_this_month', 'dow_same_weekday_after_time',
                'date_in_past_negative_delay', 'boot_first_call', 'boot_later_call_not_knowable', 'view_events_called'],
        batches=[
            cal('cal-fault-free', 6000, 100000, 250, mode='delay', faults=False),
            cal('cal-clock-steps', 6000, 100000, 250, mode='delay', faults=True),
        ],
        wall=dict(quick=75, thorough=880),
        assumptions=['times of day without microseconds; naive or tzinfo=UTC (other zones not generated)', 'day of month 1..31, weekday 0..6 (the documented ranges)'],
    ),
}
