"""C14 - W-WIRE (worlds/wire.py)."""

PROPS = {}
