"""C14 - message streams are fragmentation-proof and gated by the handshake (world W-WIRE, worlds/wire.py).

Batches.  The first one is fault-free (whole writes, no delay, no short read, valid handshakes); every other one injects
the property's faults: chunk boundaries, coalescing, short reads, invalid handshake inputs.

Two batches are marked `defect`: on the unchanged tree they reproduce two genuine contradictions of the statement
(see /verif/proposed_fixes/C14-*.diff).  Every other batch is steered clear of exactly those two situations, so that all
other clauses stay checkable:
  * steering 1 (cfg after_close=False): a message that makes the server close the connection (farm: status, stale
    register, unexpected type; database: everything but acquire/dbcopy) is always the LAST message of a generated sequence;
  * steering 2 (cfg steer_client_hs=True): while the *real client* runs security.connect, the server's challenge is
    written in one piece and the client's recv calls are not shortened (everything else on those connections is).
Set VERIF_C14_SKIP_DEFECT_BATCHES=1 to leave the two defect batches out (used for the mutant self-test as long as the
fixes are not in the tree: otherwise every mutant is "caught" by the defects of the base tree).
"""

import os

WIRE_COMPONENTS = {
    'real': ['dawgie.pl.farm.Hand (dataReceived, _process, _reg, do, notify, sendall) + Foreman',
             'dawgie.db.shelve.comms.Worker (dataReceived, _send) + DBSerializer.buildProtocol',
             'dawgie.db.shelve.comms.Connector.__do, comms.acquire, comms.release',
             'dawgie.pl.logger.LogSink + LogSinkFactory.buildProtocol + TwistedHandler (logging.handlers.SocketHandler)',
             'dawgie.security.TwistedWrapper (phases 1-6, process), security.connect / _send / _recv (legacy branch)',
             'dawgie.pl.message.send / receive / dumps / loads', 'pickle, struct, twisted Protocol/Factory'],
    'stub': ['TCP: sim.core.SimConn on the simulated reactor (batches whole, net, client*, gpg) or a fake transport with Twisted\'s '
             'semantics - nothing is delivered after loseConnection - for the direct-drive enumerations (batches enum*, handshake, long)',
             'client sockets: sim.core.SimSocket subclass bound into dawgie.security.socket (short reads are chooser decisions)',
             'Hand._res (scheduler behind a reply)', 'comms.Worker.do body (request recorded at entry; deterministic answer through the real _send)',
             'log sink "actual" handler (recorder); LogSinkFactory.__init__ not run (opens a rotating file)',
             'context.fsm (constant is_pipeline_active)', 'security._PGP = FakePGP (calibrated against gpg in batch gpg-calibration)',
             'security.random (nonce from the chooser), clock (sim.boot.SimDateTime)',
             'TLS itself: "TLS mode" = security.use_tls() true, so no TwistedWrapper; the in-memory transport carries the bytes'],
}

WIRE_RULE = ('one run = 1-8 rounds (cfg rounds), each one generated message sequence (1-6 messages of the channel\'s real types, payloads 0 B-70 kB) on one channel in TLS '
             'or legacy mode, delivered to fresh protocol instances under a set of chunkings (enum: every 1- and 2-cut; handshake: 72 '
             'input combinations x cuts; long/net/client: chooser-chosen) and compared with whole-message delivery; non-trivial = at '
             'least one delivery was cut or coalesced differently from whole-message delivery (batch "whole": at least one message '
             'delivered) and at least one message reached the application; distinct = distinct event-log digest (the digest folds in the '
             'generated sequence, the number of deliveries and the reference outcome)')

LT = ('fault enumeration for short streams (every split into 2 and into 3 chunks of every generated stream <= 96 B after the handshake; for '
      'longer ones every single cut plus every pair inside a chooser-chosen 36-byte window and among the frame-edge positions; for the '
      'handshake all 72 combinations of {valid,tampered,foreign} id signature x {4,wrong} x {valid,tampered,foreign} echo signature x '
      '{4,wrong} x {echo,wrong echo} delivered whole, a rotating 16 of them under every single cut, one under every pair of cuts), then '
      'seeded search (chooser-chosen chunkings incl. runs of 1-byte chunks and coalescing across message boundaries, payloads to 70 kB, '
      'delivery order/delay/coalescing through SimConn, short reads in the real client code); oracle = whole-message delivery of the same '
      'bytes to a fresh instance + the sent messages as ground truth; exhaustive only over the cut positions of each generated stream, '
      'not over streams')
LN = ('trusted: the simulator kernel (sim/), the harness\' own de-framer and FakePGP (its valid/tampered/foreign verdicts and the newline '
      'behaviour of decrypt are compared with a real gnupg.GPG and two freshly generated RSA keys in batch gpg-calibration); TLS transport '
      'and the db.post backend are not exercised')


def wire(name, runs_q, runs_t, **cfg):
    return dict(name=name, world='worlds.wire', cfg=cfg, runs=dict(quick=runs_q, thorough=runs_t))


BATCHES = [
    # fault-free: whole-message delivery end to end (scripted clients and the real client code), valid handshakes
    wire('fault-free (whole messages)', 100, 1500, mode='whole', rounds=8),
    # FakePGP against gpg (slow: real key generation; early so that it overlaps with the rest)
    wire('gpg-calibration', 2, 8, mode='gpg', tls=False),
    # ---- reproduction batches of the two genuine defects (silent once the proposed fixes are applied) ----
    wire('closing message followed by more bytes (repaired in 16dd36e)', 80, 1500, mode='enum', after_close=True, defect=True),
    wire('closing message followed by more bytes, SimConn (repaired in 16dd36e)', 30, 500, mode='net', after_close=True, defect=True, rounds=8),
    wire('client handshake under fragmentation (repaired in 70910f3)', 25, 500, mode='client', tls=False, steer_client_hs=False, defect=True, rounds=8),
    # ---- fault batches, steered clear of the two defects (cheap ones first: a wall-budget cut then costs the least) ----
    # real client code under short reads
    wire('faults: real clients, short reads', 140, 4000, mode='client', rounds=8),
    # SimConn: chunking, delay, coalescing, delivery order are chooser decisions
    wire('faults: SimConn scripted clients', 160, 5000, mode='net', rounds=8),
    # every 2-chunk and 3-chunk delivery of short streams
    wire('faults: enum every cut', 320, 12000, mode='enum'),
    # handshake inputs x cuts
    wire('faults: handshake inputs x cuts', 120, 6000, mode='hs', tls=False),
    # seeded chunkings of long streams (32 chunkings of each of 4 sequences per run)
    wire('faults: long streams', 160, 4000, mode='long', chunkings=32, rounds=4),
]
if os.environ.get('VERIF_C14_SKIP_DEFECT_BATCHES'):
    for _b in BATCHES:  # zero runs instead of removal: batch indices (stored in replay files) stay what they are
        if _b['cfg'].get('defect'):
            _b['runs'] = dict(quick=0, thorough=0)

PROPS = {
    'C14': dict(
        level='fault_enumeration', rule=WIRE_RULE, components=WIRE_COMPONENTS, level_text=LT, level_note=LN,
        probes=['short_stream_all_pairs', 'long_stream_window_pairs', 'handshake_all_pairs', 'handshake_valid', 'handshake_tail_coalesced',
                'failed_handshake_with_buffered_tail', 'closing_message', 'payload_ge_64k', 'flow_worker_done', 'flow_status_done',
                'flow_db_done', 'flow_lock_done', 'flow_log_done', 'gpg_calibrated'],
        batches=BATCHES,
        wall=dict(quick=150, thorough=1300),
        assumptions=['Twisted stops reading as soon as a protocol calls transport.loseConnection (abstract.FileDescriptor): chunks '
                     'arriving later are never handed to dataReceived', 'legacy handshake decisions are those of a gpg key ring, modelled by '
                     'FakePGP and calibrated against gpg 2.2 in batch gpg-calibration', 'db.post backend and real TLS are not exercised'],
    ),
}
