"""C10 and C12: W-PIPE plus life-cycle stimuli (worlds/fsm.py)"""
from checks.common import FSM_COMPONENTS, PIPE_COMPONENTS  # noqa: F401

COMPONENTS = FSM_COMPONENTS


def fsm(name, q, t, **cfg):
    return dict(name=name, world='worlds.fsm', cfg=cfg, runs=dict(quick=q, thorough=t))


RULE = ('one run = one generated engine, 0-4 targets, scripted workers, and a chooser-driven stream of life-cycle stimuli (submissions of every priority through both '
        'submit endpoints with git/compliance outcomes, resets, run requests, injected not-allowed triggers) interleaved with the completion of background steps; '
        'non-trivial = at least 4 observed state transitions beyond boot, one scheduler reordering and one accepted submission, reload or injected trigger; distinct = event-log digest')
LN = ('trusted: the simulator kernel, scripted workers, the hand-transcribed reference automaton, the scripted git and compliance outcomes; '
      'background steps are pre-empted at chooser-chosen lines of the life-cycle/farm/scheduler/submit modules (sys.settrace, at most 4 per thread) and at database open/close; everything else inside a pool-thread body is atomic')

SUBMIT_MIX = dict(run=4, rerun_executing=0, add_target=1, run_all=1, run_empty=0, update=0, submit=7, reset=1, bad_trigger=0)

PROPS = {
    'C10': dict(
        level='exploration', rule=RULE, components=COMPONENTS, level_note=LN,
        level_text='every observed change of the life-cycle state in seeded stimulus/completion interleavings is checked against the documented automaton, rejected triggers against a full before/after snapshot, and rest is demanded once no background step is outstanding; sampling, not proof',
        probes=['bad_trigger_injected', 'edge_running_gitting', 'edge_running_archiving', 'edge_updating_archiving', 'edge_archiving_updating', 'settled', 'reload_triggered'],
        batches=[
            fsm('stimuli', 450, 30000, faults=False),
            fsm('submissions', 400, 30000, faults=False, events=12, mix=SUBMIT_MIX),
            fsm('stimuli-faults', 250, 20000, faults=True, net=True),
            # biased to another rare alignment: git fails after the compliance process was spawned, the orphaned process ends during a later (re)load
            fsm('orphaned-compliance-process', 250, 20000, faults=False, events=14, mix=dict(SUBMIT_MIX, reset=3), priorities=['now', 'now', 'crew_idle'],
                endpoints=['/api/rev/submit', '/api/rev/submit', '/app/submit'], git_fail=(1, 2), git_fail_at=[4, 5], proc_delays=[5.0, 12.0, 40.0, 100.0],
                outcome=dict(success=8, failure=1, invalid=1)),
            # biased to the rare alignment: an immediate (now) submission whose compliance process ends while the reload it caused is archiving new data
            fsm('submit-now-while-archiving', 300, 20000, faults=False, events=12, mix=SUBMIT_MIX, priorities=['now', 'now', 'crew_idle', 'todo_empty'],
                proc_delays=[0.0, 0.0, 0.1, 1.0], outcome=dict(success=8, failure=1, invalid=1)),
        ],
        wall=dict(quick=100, thorough=1500),
    ),
    'C12': dict(
        level='exploration', rule=RULE, components=COMPONENTS, level_note=LN,
        level_text='at every running->updating transition the condition of the strongest accepted priority is judged on ground truth (handed / released / pending units), and in the event-free tail an accepted submission must take effect within three polls; sampling, not proof',
        probes=['submission_accepted', 'stronger_overtakes_waiting', 'reload_for_now', 'reload_for_crew_idle', 'reload_for_doing_empty', 'reload_for_todo_empty',
                'submit_while_not_active', 'liveness_window_todo_empty', 'submission_took_effect_in_window'],
        batches=[
            fsm('submissions', 450, 30000, faults=False, events=12, mix=SUBMIT_MIX),
            fsm('submissions-faults', 250, 20000, faults=True, net=True, events=12, mix=SUBMIT_MIX),
            # biased to a weaker priority waiting behind a backlog (one or two workers, long executions, quick compliance
            # checks) and then being overtaken by a stronger one in the same cycle: every ordered pair of priorities
            fsm('overtaking-behind-a-backlog', 300, 20000, faults=False, events=14, workers=[1, 1, 2],
                mix=dict(run=4, rerun_executing=0, add_target=0, run_all=2, run_empty=0, update=0, submit=8, reset=0, bad_trigger=0),
                priorities=['todo_empty', 'doing_empty', 'doing_empty', 'crew_idle', 'crew_idle', 'now'], proc_delays=[0.0, 0.1, 1.0],
                git_fail=(1, 40), outcome=dict(success=8, failure=1, invalid=1)),
        ],
        wall=dict(quick=100, thorough=1500),
    ),
}
