"""W-STORE: properties C06, C07, C08, C17 (persistence layer)."""

STORE_COMPONENTS = {
    'real': ['dawgie.db (dispatch on context.db_impl)', 'dawgie.db.shelve.__init__ (add/update/remove/reset/trace/versions/next/targets/_prime_keys/_prime_values/search)',
             'dawgie.db.shelve.model.Interface (_update/_update_msv/_load incl. load of a parent reference) in client threads',
             'dawgie.db.shelve.comms (Connector.__do, acquire/release, DBSerializer, Worker protocol incl. the lock LoopingCall)',
             'dawgie.db.shelve.util / state.DBI / search.SearchImplementation', 'dawgie.db.basis (SearchFacade._divide/_scrub/find/facet, Range, Params)',
             'dawgie.db.util (encode, move, decode)', 'dawgie.fe.api.database.search, dawgie.fe.api.facet.*', 'dawgie.db.tools.worm.consume',
             'dawgie.db.tools.purge (__main__ body through runpy)', 'dawgie.pl.version.record', 'dawgie.Value.__getstate__/__setstate__, Dataset.load/update, Task.new_values',
             'shelve + dbm.dumb on real files under /dev/shm', 'md5sum/sha1sum binaries (1 run in 50 and the calibration of every server start)',
             'twisted LoopingCall / Protocol / Factory'],
    'stub': ['reactor (sim.core.SimReactor)', 'TCP (sim.core.SimConn / SimSocket patched in as dawgie.security.connect)',
             'DBI.reopen/close/is_reopened/is_open made thread-aware (client threads see "reopened", the reactor thread the real tables): one interpreter stands for two processes',
             'subprocess.check_output(md5sum|sha1sum) inside dawgie.db.util answered by hashlib in coreutils format (49 runs in 50)',
             'tempfile.mkstemp inside dawgie.db.util: deterministic names', 'comms.release wrapped for observation only (expectation snapshot while the lock is held)',
             'generated algorithm engines (worlds.aegen) as the user code', 'clock (sim.boot.SimDateTime)',
             'crash enumeration only: numbering wrappers (no behaviour change) for os/open/shutil/tempfile/subprocess inside dawgie.db.util, dbm.dumb._io/_os, '
             'comms.Worker._send/do; a crash image = copy of the store directory taken by the wrapper immediately BEFORE the step (kernel-visible state, i.e. what a kill '
             'leaves); a new incarnation = the real DBI.open() on the image; real fork + os._exit(137) victims only as calibration of that equivalence (batches real-kill-calibration*)',
             'cross-device configuration: os.rename inside a private clone of shutil (same code objects) raises EXDEV so that the real shutil.move takes its real copy+unlink path; '
             'ENOSPC: a write-like numbered step raises OSError(ENOSPC) instead of executing',
             'db.post (PostgreSQL) backend: NOT exercised'],
}

STORE_RULE = ('one run = one generated engine (<=4 algorithms with prefix-related task/algorithm/state-vector/value names, tasks and analyses), 2-4 targets, '
              '3 phases in which 1-3 client threads run update/load/load-of-parent/add/record operations through the real lock and wire protocol while the pipeline '
              'actor issues pipeline-local operations between any two steps, and between phases remove/worm.consume/reset/version bumps/close+reopen/purge/crash; '
              'non-trivial = at least 2 values stored and acknowledged, at least 1 load or search checked against the model, and at least one scheduler reordering, '
              'fired fault or enumerated crash point; distinct = distinct event-log digest')

LT = ('seeded search over operation histories and client/pipeline interleavings on the real shelve backend (both access paths); oracle = reference dictionary model '
      '(worlds/store_model.py) updated at acknowledgement time under the real lock, plus brute-force readers of the six tables; sampling, not proof')
LN = ('trusted: the simulator kernel (sim/), the reference model and catalogue reader (worlds/store_model.py), generated engines as a model of user code, '
      'the thread-aware DBI patch as a model of process separation; crash = process kill with OS buffers intact (no power-loss model); db.post backend not exercised')


def store(name, runs_q, runs_t, **cfg):
    return dict(name=name, world='worlds.store', cfg=cfg, runs=dict(quick=runs_q, thorough=runs_t))


FAULTS = dict(faults=True, net=True, kill=(1, 3), reset_conn=(1, 6))

C06_MIX = dict(
    mix_client=dict(update=6, load=5, load_ref=3, cadd=1, crecord=1, ctargets=0),
    mix_between=dict(remove=1, consume=1, reset=0, bump=5, reopen=2, purge=0, crash=0, trace=0, search=0, check=1),
    mix_actor=dict(add=1, record=1, next=0, versions=0, trace=0, search=0, facet=0, fesearch=0, check=2),
)
C08_MIX = dict(
    mix_client=dict(update=6, load=2, load_ref=1, cadd=2, crecord=2, ctargets=1),
    mix_between=dict(remove=4, consume=2, reset=3, bump=3, reopen=3, purge=0, crash=0, trace=3, search=0, check=1, pad=3, replace=2),
    mix_actor=dict(add=2, record=2, next=2, versions=1, trace=2, search=0, facet=0, fesearch=0, check=1),
    between=3,
)
C17_MIX = dict(
    mix_client=dict(update=8, load=1, load_ref=1, cadd=1, crecord=0, ctargets=0),
    mix_between=dict(remove=1, consume=1, reset=0, bump=2, reopen=1, purge=0, crash=0, trace=0, search=8, check=0),
    mix_actor=dict(add=1, record=0, next=0, versions=0, trace=0, search=3, facet=2, fesearch=3, check=0),
    between=4, actor_ops=4, stop_on=['-'],
)
C07_MIX = dict(
    mix_client=dict(update=9, load=2, load_ref=1, cadd=0, crecord=0, ctargets=0),
    mix_between=dict(remove=2, consume=1, reset=0, bump=2, reopen=1, purge=2, crash=0, trace=0, search=0, check=2),
    mix_actor=dict(add=1, record=0, next=0, versions=0, trace=0, search=0, facet=0, fesearch=0, check=5),
    content='pool',
)


def with_crash(mix, n):
    m = dict(mix)
    m['mix_between'] = dict(mix['mix_between'], crash=n)
    return m


# one run must stay well below 4 s even under 16-way load: the run server executes 20 runs per forked child
# with a 130 s limit
# the enumerated phase is ONE update by one client, so that the image budget is never exhausted: every I/O step of
# the generated update is a checked crash point (concurrent crash scenarios are the business of the 'faults' batches)
ENUM = dict(phases=1, enum=1, enum_clients=1, enum_ops=1, ops_per_client=2, content='pool', between=1, max_images=140)
# a forked process costs 0.5-5 s of copy-on-write faults in this VM: the real kills are a small batch of their own
# (one real kill costs ~2.5 s unloaded; the run server executes 20 runs per forked child within 130 s, so only one
# run in four does a real kill)
REAL_KILL = dict(phases=1, enum=0, calibrate=0, real_kill=(1, 4), content='pool', between=1)

PROPS = {
    'C07': dict(
        level='fault_enumeration', rule=STORE_RULE + '; in the crash batches every numbered I/O step of every update of the enumerated phases is a crash point',
        components=STORE_COMPONENTS,
        level_text=('fault enumeration: a crash image is taken immediately before EVERY file-system / table / reply step (worker side and pipeline side) of every update '
                    'of the enumerated phases and opened by a new incarnation (real DBI.open, everything read back); the image-equals-real-kill equivalence is itself tested '
                    'with forked victims ended by os._exit(137); followed by seeded search (kills, resets, crashes at step boundaries, ENOSPC, purge); '
                    'exhaustive over the crash positions of each generated update, not over updates'),
        level_note=LN + '; crash images are copies of the directory taken before the step (kernel-visible state = what SIGKILL leaves), validated against real fork + os._exit(137) kills in the two real-kill-calibration batches',
        probes=['novelty_new', 'novelty_repeat', 'crash_point_worker_side', 'crash_point_pipeline_side', 'crash_between_move_and_record',
                'crash_between_values_of_one_update', 'crash_image_checked', 'real_kill_equals_image', 'purge_deleted_orphans', 'references_checked_during_update',
                'crash_inside_cross_device_copy'],
        batches=[
            store('fault-free', 160, 1600, prop='C07', **C07_MIX),
            store('crash-enum', 100, 1000, prop='C07', **ENUM, **{k: v for k, v in C07_MIX.items() if k != 'content'}),
            store('crash-enum-cross-device', 40, 400, prop='C07', exdev=True, **ENUM, **{k: v for k, v in C07_MIX.items() if k != 'content'}),
            store('real-kill-calibration', 48, 480, prop='C07', **REAL_KILL, **{k: v for k, v in C07_MIX.items() if k != 'content'}),
            store('real-kill-calibration-cross-device', 24, 240, prop='C07', exdev=True, **REAL_KILL, **{k: v for k, v in C07_MIX.items() if k != 'content'}),
            store('faults', 140, 1400, prop='C07', crash_mid=(1, 6), enospc=(1, 150), **FAULTS,
                  **{k: v for k, v in with_crash(C07_MIX, 3).items()}),
            store('faults-cross-device', 40, 400, prop='C07', exdev=True, crash_mid=(1, 6), enospc=(1, 60), **FAULTS,
                  **{k: v for k, v in with_crash(C07_MIX, 3).items()}),
        ],
        wall=dict(quick=75, thorough=900),
    ),
    'C06': dict(
        level='exploration', rule=STORE_RULE, components=STORE_COMPONENTS, level_text=LT, level_note=LN,
        probes=['load_found_entry', 'load_nothing_matches', 'load_of_parent', 'version_bump', 'reopen', 'remove', 'update_done'],
        batches=[
            store('fault-free', 300, 3000, prop='C06', **C06_MIX),
            store('faults', 220, 2200, prop='C06', crash_mid=(1, 8), **FAULTS, **with_crash(C06_MIX, 2)),
            store('crash-enum', 30, 300, prop='C06', **ENUM, **C06_MIX),
        ],
        wall=dict(quick=75, thorough=900),
    ),
    'C08': dict(
        level='exploration', rule=STORE_RULE, components=STORE_COMPONENTS, level_text=LT, level_note=LN,
        probes=['catalogue_checked_after_reopen', 'next_checked_with_entries', 'remove_with_bystanders', 'reset_with_entries', 'trace_with_entries', 'consume'],
        batches=[
            store('fault-free', 320, 3200, prop='C08', **C08_MIX),
            store('faults', 220, 2200, prop='C08', crash_mid=(1, 8), **FAULTS, **with_crash(C08_MIX, 2)),
            # a long-lived catalogue: rows of other engines push this engine's ids across a power of ten, so that ids
            # which are decimal prefixes of one another (1 and 10..19) meet in one run, task and target; then resets, traces, removals
            store('ids-across-a-power-of-ten', 200, 2000, prop='C08', phases=4, max_pkgs=1, max_total=4,
                  mix_client=dict(update=8, load=1, load_ref=0, cadd=1, crecord=2, ctargets=0),
                  mix_between=dict(remove=2, consume=1, reset=7, bump=3, reopen=1, purge=0, crash=0, trace=3, search=0, check=1, pad=5),
                  mix_actor=dict(add=1, record=2, next=1, versions=1, trace=1, search=0, facet=0, fesearch=0, check=1), between=4),
        ],
        wall=dict(quick=75, thorough=900),
    ),
    'C17': dict(
        level='exploration', rule=STORE_RULE, components=STORE_COMPONENTS,
        level_text=LT + '; input-heavy property: for a fixed database a search is a pure query -- the simulator contributes the database (reached through concurrent '
                        'histories with removals, version bumps, reopen, faults) and the instant of the query (between any two steps of the writers)',
        level_note=LN,
        probes=['find_nonempty', 'find_range_nonempty', 'find_via_front_end', 'pages_more_than_one', 'facet_nonempty', 'scrub_checked'],
        batches=[
            store('fault-free', 320, 3200, prop='C17', **C17_MIX),
            store('faults', 220, 2200, prop='C17', **FAULTS, **C17_MIX),
        ],
        wall=dict(quick=75, thorough=900),
    ),
}
