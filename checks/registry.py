"""Which worlds, configurations and budgets decide each property."""

from checks.common import PIPE_COMPONENTS  # noqa: E402

PIPE_RULE = ('one run = one generated engine (<=7 algorithms, task/analysis/regress, value-level inputs, feedback), 0-4 targets, '
             'a chooser-driven stream of user events and scripted-worker replies on the real pipeline; '
             'non-trivial = at least 2 releases, 1 reply and 1 scheduler reordering; distinct = distinct event-log digest')


def pipe(name, runs_q, runs_t, **cfg):
    return dict(name=name, world='worlds.pipe', cfg=cfg, runs=dict(quick=runs_q, thorough=runs_t))


LT = 'seeded search over event/reply interleavings on the real scheduler+farm with scripted workers; oracle = ground truth of observed releases, hand-outs and replies plus the reference evaluator; sampling, not proof'
LN = 'trusted: the simulator kernel (sim/), the reference evaluator (worlds/aegen.Ref), scripted workers as a model of real worker processes; db.post backend not exercised'
MIX_DEFAULT = dict(run=6, rerun_executing=2, add_target=1, run_all=1, run_empty=0)
MIX_UPDATE = dict(run=5, rerun_executing=1, add_target=1, run_all=1, run_empty=0, update=3)

PROPS = {
    'C01': dict(
        level='exploration', rule=PIPE_RULE, components=PIPE_COMPONENTS, level_text=LT, level_note=LN,
        probes=['batch_nonempty', 'reply_with_new_values', 'reply_failure', 'target_added'],
        batches=[
            pipe('fault-free', 1200, 60000, faults=False, events=14, max_total=8, max_pkgs=4,
                 mix=dict(run=6, rerun_executing=1, add_target=1, run_all=2, run_empty=0)),
            pipe('faults', 700, 40000, faults=True, net=True, events=14, max_total=8, max_pkgs=4, self_refs=True),
            pipe('reload-history', 500, 20000, faults=False, events=12, max_total=8, max_pkgs=4, mix=MIX_UPDATE, record_on_run=True),
        ],
        wall=dict(quick=100, thorough=1500),
    ),
    'C02': dict(
        level='exploration', rule=PIPE_RULE, components=PIPE_COMPONENTS, level_text=LT, level_note=LN,
        probes=['reply_with_new_values', 'quiesced'],
        batches=[
            pipe('fault-free', 1200, 60000, faults=False, events=10, outcome=dict(success=8, failure=1, invalid=1)),
            pipe('faults', 700, 40000, faults=True, net=True, events=10, self_refs=True),
            pipe('reload-history', 500, 20000, faults=False, events=12, mix=MIX_UPDATE, record_on_run=True),
        ],
        wall=dict(quick=100, thorough=1500),
    ),
    'C04': dict(
        level='exploration', rule=PIPE_RULE, components=PIPE_COMPONENTS, level_text=LT, level_note=LN,
        probes=['quiesced', 'request_with_no_targets', 'reply_failure', 'reply_invalid', 'failure_withdrew_dependent'],
        batches=[
            pipe('fault-free', 1200, 60000, faults=False, events=8, outcome=dict(success=3, failure=2, invalid=2), self_refs=True,
                 mix=dict(run=6, rerun_executing=1, add_target=1, run_all=1, run_empty=2)),
            pipe('faults', 700, 40000, faults=True, net=True, events=8, outcome=dict(success=3, failure=2, invalid=2), self_refs=True,
                 mix=dict(run=6, rerun_executing=1, add_target=1, run_all=1, run_empty=2)),
            pipe('reload-history', 500, 20000, faults=False, events=10, outcome=dict(success=3, failure=2, invalid=2), mix=MIX_UPDATE, record_on_run=True),
        ],
        wall=dict(quick=100, thorough=1500),
    ),
    'C05': dict(
        level='exploration', rule=PIPE_RULE, components=PIPE_COMPONENTS, level_text=LT, level_note=LN,
        probes=['reply_failure', 'reply_invalid', 'failure_withdrew_dependent'],
        batches=[
            pipe('fault-free', 1200, 60000, faults=False, events=14, outcome=dict(success=3, failure=3, invalid=3), self_refs=True),
            pipe('faults', 700, 40000, faults=True, net=True, events=14, outcome=dict(success=3, failure=3, invalid=3), self_refs=True),
            pipe('reload-history', 500, 20000, faults=False, events=12, outcome=dict(success=3, failure=3, invalid=3), mix=MIX_UPDATE, record_on_run=True),
        ],
        wall=dict(quick=100, thorough=1500),
    ),
    'C11': dict(
        level='exploration', rule=PIPE_RULE, components=PIPE_COMPONENTS, level_text=LT, level_note=LN,
        probes=['handed'],
        batches=[
            pipe('fault-free', 1000, 50000, faults=False, workers=[0, 1, 2, 3, 5, 8]),
            pipe('faults', 800, 50000, faults=True, net=True, workers=[0, 1, 2, 3, 5, 8]),
            pipe('reload-history', 600, 25000, faults=True, net=True, events=12, workers=[1, 2, 3, 5, 8], mix=MIX_UPDATE, record_on_run=True),
        ],
        wall=dict(quick=100, thorough=1500),
    ),
    'C03': dict(
        level='exploration', rule=PIPE_RULE, components=PIPE_COMPONENTS,
        level_text=LT, level_note=LN,
        probes=['rerequest_while_doing', 'reply_with_new_values', 'handed'],
        batches=[
            pipe('fault-free', 1200, 60000, faults=False),
            pipe('faults', 700, 40000, faults=True, net=True, self_refs=True),
            pipe('reload-history', 500, 20000, faults=False, events=12, mix=MIX_UPDATE, record_on_run=True),
        ],
        wall=dict(quick=100, thorough=1200),
    ),
}

PROPS['C09'] = dict(
    level='exploration', components=PIPE_COMPONENTS, level_note=LN + '; input-heavy property: given the program the graph is almost a pure function; the simulator owns '
    'hash-seed dependent iteration orders (4 PYTHONHASHSEED classes), package discovery order and the history of software updates and (re)loads',
    rule='one run = one generated engine (<=10 algorithms, 1-5 packages, value/state-vector/algorithm level inputs, diamonds, feedback) and, in the reload batches, '
         'a history of software updates (version bumps, inputs added/removed, algorithms added) each followed by a real FSM reload; the graph built by the real '
         'dag.Construct at every (re)load is compared with the reference evaluator; non-trivial = >=2 releases, >=1 reply, >=1 reordering; distinct = event-log digest',
    level_text='every task graph built at boot and at each reload in seeded histories is compared node-, edge-, ancestry-, parent- and feedback-wise with an independent reference evaluator; sampling over programs and histories, not proof',
    probes=['graph_checked', 'graph_with_feedback', 'graph_with_join', 'rebuild'],
    batches=[
        pipe('boot-graphs', 1300, 60000, faults=False, events=3, max_total=10, max_pkgs=5, workers=2),
        pipe('reload-history', 700, 40000, faults=False, events=10, max_total=8, max_pkgs=4, mix=MIX_UPDATE, record_on_run=True),
    ],
    wall=dict(quick=100, thorough=1500),
)
PROPS['C15'] = dict(
    level='exploration', components=PIPE_COMPONENTS, level_note=LN + '; the first sentence (total order of versions) is a pure function and is decided by exhaustive enumeration '
    'inside the same command, not by simulation (reported under coverage.version_order)',
    rule=PIPE_RULE + '; plus histories of software updates (version bumps of algorithm / state vector / value, new algorithms) with versions persisted as units run, each followed by a real FSM reload',
    level_text='at every schedule build (boot and each reload) in seeded run/bump/reload histories, the set of scheduled algorithms and their targets is compared with the reference computed from the declared versions and db.versions(); sampling, not proof',
    probes=['rebuild', 'load_with_new_versions', 'load_with_some_new_some_old', 'version_recorded_by_run'],
    batches=[
        dict(name='version-order-exhaustive (not simulation)', world='worlds.verorder', cfg={}, runs=dict(quick=4, thorough=4)),
        pipe('boot-versions', 800, 40000, faults=False, events=4, pre_versions=2),
        pipe('reload-history', 1000, 60000, faults=False, events=12, mix=MIX_UPDATE, record_on_run=True, graph_edits=False),
        pipe('reload-history-faults', 400, 30000, faults=True, net=True, events=12, mix=MIX_UPDATE, record_on_run=True),
    ],
    wall=dict(quick=100, thorough=1500),
)

# properties whose checks are finished, validated on the unchanged tree and listed in MANIFEST.json
CLAIMED = ['C01', 'C02', 'C03', 'C04', 'C05', 'C06', 'C07', 'C08', 'C09', 'C10', 'C11', 'C12', 'C13', 'C14', 'C15', 'C17', 'C18', 'C19', 'C20']

NOT_APPLICABLE = {
    'C16': 'pure function of program text (compliance rules): no schedule, clock, I/O fault, crash point or second party for a simulator to own; generating packages and rule violations would be input generation, not simulation (DESIGN.md section 6)',
}


def _load_extra():
    """every checks/p_*.py contributes its own PROPS / NOT_APPLICABLE (one file per world, so that
    worlds can be developed independently)"""
    import glob
    import importlib.util
    import os

    here = os.path.dirname(os.path.abspath(__file__))
    for path in sorted(glob.glob(os.path.join(here, 'p_*.py'))):
        try:
            spec = importlib.util.spec_from_file_location('checks_' + os.path.basename(path)[:-3], path)
            mod = importlib.util.module_from_spec(spec)
            spec.loader.exec_module(mod)
        except Exception as e:  # a world under construction must not take the other checks down
            import sys

            print(f'registry: skipped {path}: {e!r}', file=sys.stderr)
            continue
        PROPS.update(getattr(mod, 'PROPS', {}))
        NOT_APPLICABLE.update(getattr(mod, 'NOT_APPLICABLE', {}))


_load_extra()

# W-PIPE halves of properties whose other half lives in another world's registry file
def MANY(prop):
    return dict(pipe('many-targets', 16, 300, prop=prop, faults=False, events=3, many_targets=(250, 320), max_total=2, max_pkgs=1, workers=8, max_steps=60000,
                     feedback=False, waiters=False, outcome=dict(success=30, failure=1, invalid=1),
                     mix=dict(run=1, rerun_executing=0, add_target=0, run_all=2, run_empty=0)), chunk=4)


_EXTRA_BATCHES = {
    # second sentence of C02: real workers, stored results at quiescence vs a from-scratch evaluation
    # variant (B): engine on disk, real scanner, real module reloading at every software update
    'C09': [dict(name='disk-reload-history', world='worlds.disk', cfg=dict(prop='C09', faults=False, events=8, max_total=8, max_pkgs=4), runs=dict(quick=300, thorough=15000))],
    'C15': [dict(name='disk-reload-history', world='worlds.disk', cfg=dict(prop='C15', faults=False, events=8, graph_edits=False), runs=dict(quick=300, thorough=15000))],
    'C10': [dict(name='disk-lifecycle', world='worlds.disk', cfg=dict(prop='C10', lifecycle=True, faults=False, events=10, fsm_graph_edits=True,
                                                               mix=dict(run=3, rerun_executing=0, add_target=1, run_all=1, run_empty=0, update=0, submit=6, reset=2, bad_trigger=1)),
                 runs=dict(quick=200, thorough=10000))],
    # the status poll of a worker that finishes while the pipeline is in gitting / reloading: the life-cycle world keeps it inactive for seconds
    'C11': [dict(name='lifecycle', world='worlds.fsm', cfg=dict(prop='C11', faults=False, events=12,
                                                             mix=dict(run=5, rerun_executing=0, add_target=1, run_all=1, run_empty=0, update=0, submit=6, reset=1, bad_trigger=0)),
                 runs=dict(quick=300, thorough=15000))],
    # the real waiter protocol (wait_for_todo / wait_for_doing / wait_for_crew, their pollers and re-arming callbacks) as
    # submissions use it, with run requests landing between a poll and its callback
    'C04': [MANY('C04'), dict(name='submission-waiters', world='worlds.fsm',
                 cfg=dict(prop='C04', faults=False, events=14, workers=[1, 2, 3],
                          mix=dict(run=6, rerun_executing=0, add_target=0, run_all=2, run_empty=0, update=0, submit=6, reset=0, bad_trigger=0),
                          priorities=['todo_empty', 'todo_empty', 'doing_empty', 'doing_empty', 'crew_idle'], proc_delays=[0.0, 0.1, 1.0], git_fail=(1, 40),
                          cb_delays=[0, 0.3, 1.0, 2.0]),
                 runs=dict(quick=300, thorough=15000))],
    # the real worker (worker.cluster.execute, worker.Context.run) reporting runs that fail inside the algorithm
    'C05': [dict(name='real-workers-failing-runs', world='worlds.realw', cfg=dict(prop='C05', faults=False, failing=True, events=5),
                 runs=dict(quick=160, thorough=8000), chunk=4, require=['handed', 'real_outcome_reported_right'])],
    'C02': [dict(name='real-workers-end-state', world='worlds.realw', cfg=dict(prop='C02', faults=False), runs=dict(quick=160, thorough=8000), chunk=4),
            MANY('C02')],
    # a survey-sized target list: one release of one job carries hundreds of targets
    'C03': [MANY('C03')],
    'C18': [pipe('pipe-history', 700, 30000, prop='C18', faults=False, events=12, outcome=dict(success=4, failure=2, invalid=2)),
            pipe('pipe-history-faults', 400, 20000, prop='C18', faults=True, net=True, events=12, mix=MIX_UPDATE, record_on_run=True)],
    'C20': [dict(name='pipe-timers', world='worlds.timer', cfg=dict(prop='C20', faults=False), runs=dict(quick=500, thorough=20000))],
}
for _pid, _bs in _EXTRA_BATCHES.items():
    if _pid in PROPS:
        PROPS[_pid]['batches'] = list(PROPS[_pid]['batches']) + _bs
