"""Which worlds, configurations and budgets decide each property."""

PIPE_COMPONENTS = {
    'real': ['dawgie.pl.schedule', 'dawgie.pl.dag', 'dawgie.pl.farm (Hand, Foreman, dispatch, plow)', 'dawgie.pl.message',
             'dawgie.pl.state.FSM (non-doctest)', 'dawgie.pl.version', 'dawgie.pl.logger.chronicle', 'dawgie.pl.promotion (disabled)',
             'dawgie.db.shelve on dbm.dumb', 'dawgie.fe.api.cmd_run', 'twisted Deferred/LoopingCall/deferToThread/Protocol', 'transitions'],
    'stub': ['reactor (sim.core.SimReactor)', 'TCP (sim.core.SimConn)', 'workers (scripted actors speaking the real wire protocol)',
             'FSM._security', 'FSM._logging', 'pydot.Dot.write', 'scan.for_factories (in-memory engines)', 'clock (sim.boot.SimDateTime)'],
}

PIPE_RULE = ('one run = one generated engine (<=7 algorithms, task/analysis/regress, value-level inputs, feedback), 0-4 targets, '
             'a chooser-driven stream of user events and scripted-worker replies on the real pipeline; '
             'non-trivial = at least 2 releases, 1 reply and 1 scheduler reordering; distinct = distinct event-log digest')


def pipe(name, runs_q, runs_t, **cfg):
    return dict(name=name, world='worlds.pipe', cfg=cfg, runs=dict(quick=runs_q, thorough=runs_t))


PROPS = {
    'C03': dict(
        level='exploration', rule=PIPE_RULE, components=PIPE_COMPONENTS,
        level_text='seeded search over event/reply interleavings on the real scheduler+farm with scripted workers; oracle = ground truth of observed releases, hand-outs and replies; sampling, not proof',
        level_note='trusted: the simulator kernel (sim/), the reference evaluator (worlds/aegen.Ref), scripted workers as a model of real worker processes; db.post backend not exercised',
        probes=['rerequest_while_doing', 'reply_with_new_values', 'handed'],
        batches=[
            pipe('fault-free', 300, 40000, faults=False),
            pipe('faults', 200, 30000, faults=True, net=True),
        ],
        wall=dict(quick=100, thorough=1200),
    ),
}

NOT_APPLICABLE = {
    'C16': 'pure function of program text (compliance rules): no schedule, clock, I/O fault, crash point or second party for a simulator to own; generating packages and rule violations would be input generation, not simulation (DESIGN.md section 6)',
}
