"""Which worlds, configurations and budgets decide each property."""

PIPE_COMPONENTS = {
    'real': ['dawgie.pl.schedule', 'dawgie.pl.dag', 'dawgie.pl.farm (Hand, Foreman, dispatch, plow)', 'dawgie.pl.message',
             'dawgie.pl.state.FSM (non-doctest)', 'dawgie.pl.version', 'dawgie.pl.logger.chronicle', 'dawgie.pl.promotion (disabled)',
             'dawgie.db.shelve on dbm.dumb', 'dawgie.fe.api.cmd_run', 'twisted Deferred/LoopingCall/deferToThread/Protocol', 'transitions'],
    'stub': ['reactor (sim.core.SimReactor)', 'TCP (sim.core.SimConn)', 'workers (scripted actors speaking the real wire protocol)',
             'FSM._security', 'FSM._logging', 'pydot.Dot.write', 'scan.for_factories (in-memory engines)', 'clock (sim.boot.SimDateTime)'],
}

PIPE_RULE = ('one run = one generated engine (<=7 algorithms, task/analysis/regress, value-level inputs, feedback), 0-4 targets, '
             'a chooser-driven stream of user events and scripted-worker replies on the real pipeline; '
             'non-trivial = at least 2 releases, 1 reply and 1 scheduler reordering; distinct = distinct event-log digest')


def pipe(name, runs_q, runs_t, **cfg):
    return dict(name=name, world='worlds.pipe', cfg=cfg, runs=dict(quick=runs_q, thorough=runs_t))


LT = 'seeded search over event/reply interleavings on the real scheduler+farm with scripted workers; oracle = ground truth of observed releases, hand-outs and replies plus the reference evaluator; sampling, not proof'
LN = 'trusted: the simulator kernel (sim/), the reference evaluator (worlds/aegen.Ref), scripted workers as a model of real worker processes; db.post backend not exercised'
MIX_DEFAULT = dict(run=6, rerun_executing=2, add_target=1, run_all=1, run_empty=0)

PROPS = {
    'C01': dict(
        level='exploration', rule=PIPE_RULE, components=PIPE_COMPONENTS, level_text=LT, level_note=LN,
        probes=['batch_nonempty', 'reply_with_new_values', 'reply_failure', 'target_added'],
        batches=[
            pipe('fault-free', 1600, 60000, faults=False, events=14, max_total=8, max_pkgs=4,
                 mix=dict(run=6, rerun_executing=1, add_target=1, run_all=2, run_empty=0)),
            pipe('faults', 900, 40000, faults=True, net=True, events=14, max_total=8, max_pkgs=4),
        ],
        wall=dict(quick=100, thorough=1500),
    ),
    'C02': dict(
        level='exploration', rule=PIPE_RULE, components=PIPE_COMPONENTS, level_text=LT, level_note=LN,
        probes=['reply_with_new_values', 'quiesced'],
        batches=[
            pipe('fault-free', 1600, 60000, faults=False, events=10, outcome=dict(success=8, failure=1, invalid=1)),
            pipe('faults', 900, 40000, faults=True, net=True, events=10),
        ],
        wall=dict(quick=100, thorough=1500),
    ),
    'C04': dict(
        level='exploration', rule=PIPE_RULE, components=PIPE_COMPONENTS, level_text=LT, level_note=LN,
        probes=['quiesced', 'request_with_no_targets', 'reply_failure', 'reply_invalid', 'failure_withdrew_dependent'],
        batches=[
            pipe('fault-free', 1600, 60000, faults=False, events=8, outcome=dict(success=3, failure=2, invalid=2),
                 mix=dict(run=6, rerun_executing=1, add_target=1, run_all=1, run_empty=2)),
            pipe('faults', 900, 40000, faults=True, net=True, events=8, outcome=dict(success=3, failure=2, invalid=2),
                 mix=dict(run=6, rerun_executing=1, add_target=1, run_all=1, run_empty=2)),
        ],
        wall=dict(quick=100, thorough=1500),
    ),
    'C05': dict(
        level='exploration', rule=PIPE_RULE, components=PIPE_COMPONENTS, level_text=LT, level_note=LN,
        probes=['reply_failure', 'reply_invalid', 'failure_withdrew_dependent'],
        batches=[
            pipe('fault-free', 1600, 60000, faults=False, events=14, outcome=dict(success=3, failure=3, invalid=3)),
            pipe('faults', 900, 40000, faults=True, net=True, events=14, outcome=dict(success=3, failure=3, invalid=3)),
        ],
        wall=dict(quick=100, thorough=1500),
    ),
    'C11': dict(
        level='exploration', rule=PIPE_RULE, components=PIPE_COMPONENTS, level_text=LT, level_note=LN,
        probes=['handed'],
        batches=[
            pipe('fault-free', 1200, 50000, faults=False, workers=[0, 1, 2, 3, 5, 8]),
            pipe('faults', 1300, 50000, faults=True, net=True, workers=[0, 1, 2, 3, 5, 8]),
        ],
        wall=dict(quick=100, thorough=1500),
    ),
    'C03': dict(
        level='exploration', rule=PIPE_RULE, components=PIPE_COMPONENTS,
        level_text=LT, level_note=LN,
        probes=['rerequest_while_doing', 'reply_with_new_values', 'handed'],
        batches=[
            pipe('fault-free', 1500, 60000, faults=False),
            pipe('faults', 1000, 40000, faults=True, net=True),
        ],
        wall=dict(quick=100, thorough=1200),
    ),
}

NOT_APPLICABLE = {
    'C16': 'pure function of program text (compliance rules): no schedule, clock, I/O fault, crash point or second party for a simulator to own; generating packages and rule violations would be input generation, not simulation (DESIGN.md section 6)',
}


def _load_extra():
    """every checks/p_*.py contributes its own PROPS / NOT_APPLICABLE (one file per world, so that
    worlds can be developed independently)"""
    import glob
    import importlib.util
    import os

    here = os.path.dirname(os.path.abspath(__file__))
    for path in sorted(glob.glob(os.path.join(here, 'p_*.py'))):
        spec = importlib.util.spec_from_file_location('checks_' + os.path.basename(path)[:-3], path)
        mod = importlib.util.module_from_spec(spec)
        spec.loader.exec_module(mod)
        PROPS.update(getattr(mod, 'PROPS', {}))
        NOT_APPLICABLE.update(getattr(mod, 'NOT_APPLICABLE', {}))


_load_extra()
