"""constants shared by the registry files (no imports, no side effects)"""

PIPE_COMPONENTS = {
    'real': ['dawgie.pl.schedule', 'dawgie.pl.dag', 'dawgie.pl.farm (Hand, Foreman, dispatch, plow)', 'dawgie.pl.message',
             'dawgie.pl.state.FSM (non-doctest)', 'dawgie.pl.version', 'dawgie.pl.logger.chronicle', 'dawgie.pl.promotion (disabled)',
             'dawgie.db.shelve on dbm.dumb', 'dawgie.fe.api.cmd_run', 'twisted Deferred/LoopingCall/deferToThread/Protocol', 'transitions'],
    'stub': ['reactor (sim.core.SimReactor)', 'TCP (sim.core.SimConn)', 'workers (scripted actors speaking the real wire protocol)',
             'FSM._security', 'FSM._logging', 'pydot.Dot.write', 'scan.for_factories (in-memory engines)', 'clock (sim.boot.SimDateTime)'],
}

FSM_COMPONENTS = {
    'real': PIPE_COMPONENTS['real'] + ['dawgie.pl.state.FSM with its deferred branches (load, reload, archive, navel gaze) and waiter threads',
                                      'dawgie.fe.api.submit / dawgie.fe.submit Process + VerifyHandler', 'dawgie.fe.api.cmd_reset / dawgie.fe.app.schedule_reset',
                                      'twisted.web.server.Site + dawgie.fe endpoint table (requests arrive as HTTP bytes)', 'dawgie.tools.submit.automatic / Priority',
                                      'dawgie.db.shelve archive (rotation of the dbm files)'],
    'stub': PIPE_COMPONENTS['stub'] + ['git (git.cmd.Git.execute answers from a script: history, HEAD, failing command chosen by the chooser)',
                                      'compliance sub-process (reactor.spawnProcess actor: exit time and status are chooser decisions; the rules themselves are not run)'],
}
