#!/usr/bin/env python3
"""Regenerate MANIFEST.json from checks/registry.py (run from /verif)."""
import json, sys, os
sys.path.insert(0, os.path.dirname(os.path.abspath(__file__)))
os.environ.setdefault('VERIF_NO_BOOT', '1')
import importlib.util
spec = importlib.util.spec_from_file_location('registry', os.path.join(os.path.dirname(os.path.abspath(__file__)), 'checks', 'registry.py'))
reg = importlib.util.module_from_spec(spec); spec.loader.exec_module(reg)
props = [json.loads(l)['id'] for l in open(os.path.join(os.path.dirname(os.path.abspath(__file__)), 'properties.jsonl'))]
checks = []
for pid in props:
    if pid not in reg.PROPS or pid not in reg.CLAIMED:
        continue
    P = reg.PROPS[pid]
    checks.append(dict(
        property_id=pid, quick_cmd=f'./verif check {pid} --tier quick', thorough_cmd=f'./verif check {pid} --tier thorough',
        evidence_file=f'evidence/{pid}.json', replay_cmd_template='./verif replay {path}', engine='dsim',
        level_claimed=dict(category=P['level'], text=P.get('level_text', ''), design_ref=P.get('design_ref', f'DESIGN.md section 5 {pid}')),
        level_note=P.get('level_note', ''), technique=P.get('technique', 'deterministic simulation with fault injection: seeded search over schedules and fault sequences against a reference model')))
na = [dict(property_id=pid, reason=reg.NOT_APPLICABLE.get(pid, 'check not built yet in this session; see DESIGN.md section 11 build order')) for pid in props if pid not in reg.PROPS or pid not in reg.CLAIMED]
m = dict(version=1, setup_cmd='./verif setup',
         hooks=dict(guard='DAWGIE_VERIF', enable='n/a - no source hooks: every seam is a monkeypatch applied by the harness to the imported tree',
                    baseline_off_cmd='cd /repo && /venv/bin/python -m pytest -ra -q -p no:cacheprovider --timeout=900 --continue-on-collection-errors',
                    source_commits=[], add_only=True),
         engines=[dict(name='dsim', path='sim/', serves_properties=[c['property_id'] for c in checks],
                       kind_free_text='deterministic discrete-event simulator: simulated Twisted reactor, virtual clock, simulated TCP, baton-passing controlled threads, seeded chooser, choice-list shrinking and replay')],
         checks=checks, not_applicable=na,
         notes='All checks import /repo/Python/dawgie (VERIF_TREE) directly; nothing is installed. See DESIGN.md.')
json.dump(m, open(os.path.join(os.path.dirname(os.path.abspath(__file__)), 'MANIFEST.json'), 'w'), indent=1)
print('checks', [c['property_id'] for c in checks], 'na', [n['property_id'] for n in na])
